"""Regenerates MANIFEST.json from the per-property metadata below (kept in one place)."""
import json
CHECKS = {
 "C01": ("restart through simulated storage: entry point x terminator x vlevel x version; lost-tail faults; text equality with the model and fixed point", "§6/C01"),
 "C02": ("seeded delivery schedules, record loss and add/rm/disconnect/rename histories; closure+symmetry invariant on the implementation after every step", "§6/C02"),
 "C03": ("k delivery orders per valid document (adversarial + uniform; all n! for <=5 records in the thorough tier), chunking, interleaved queries; identical abstract observation and equality with the order-free model", "§6/C03"),
 "C04": ("record-corruption faults (single-point mutations of valid records) and document-level rules against an independent recogniser; NOT the bounded-exhaustive short-string enumeration (out of family)", "§6/C04"),
 "C05": ("stepwise refinement of legal mutation histories against the text model at every settled step, exact cascade, restart cross-check against a fresh parse of the model text", "§6/C05"),
 "C06": ("format-changing restart: graph built under a scheduled delivery, converted, reparsed at vlevel 3, converted back; differential oracle from the model's coordinate arithmetic", "§6/C06"),
 "C07": ("record corruption/truncation/blank faults on transport and simulated disk, bad API calls interleaved, gfapy-validate in-process; exception class and deterministic line-event budget per call", "§6/C07"),
 "C08": ("failing calls (bad-call catalogue, corruption faults) interleaved with successful ones at scheduler-chosen points; full observation before/after every call that raised", "§6/C08"),
 "C09": ("histories of adds/renames to fresh and used identifiers of every type pair; registry coherence, expected NotUniqueError from the model namespace, lookup identity, rename = text rewrite", "§6/C09"),
 "C10": ("read-only call bursts at scheduler-chosen points of a mutation history; frame condition on the full observation and repeatability of answers", "§6/C10"),
 "C11": ("end-typed collections (caches filled at connect time) versus re-derivation from the specification table, over all 144 E cells, after delivery orders, renames, removals", "§6/C11"),
 "C12": ("complement-form duplicate delivery fault, paths before/after links, algebraic laws of complement on the harness's own CIGAR code", "§6/C12"),
 "C13": ("orders of deciding/ambiguous/conflicting records, flush placement, version/dialect parameters, failing record inside the queue; version == model, VersionError for mixed, exactly-once", "§6/C13"),
 "C14": ("graphs built under scheduled delivery then merged; post-state checker from the model (chains, spelled sequence, outward links, components, idempotence)", "§6/C14"),
 "C15": ("graphs built under scheduled delivery then multiplied; post-state checker (copies, counts, links per copy, distribution, factor 0/1/negative)", "§6/C15"),
 "C16": ("components/topology counters versus union-find over the model after mutation histories and under several hash seeds", "§6/C16"),
 "C17": ("group definitions split over lines and delivered in scheduled orders relative to the lines they mention; captured path / induced set against intended walk / set", "§6/C17"),
 "C18": ("four replicas (vlevel 0-3) fed the same history in lock-step; no divergence, monotonic acceptance, surfacing order of invalid assignments", "§6/C18"),
 "C19": ("two clients (original, clone) editing in scheduler-chosen interleaving; isolation of every mutable value reachable from getters", "§6/C19"),
 "C20": ("acknowledged tag write -> checkpoint on SimDisk -> dirty restart -> read back equal value and datatype; boundary-biased value pool", "§6/C20"),
}
TECH = "deterministic simulation with fault injection: seeded schedule/history/fault search, invariants per step or refinement against a reference model, ddmin-minimised replay"
import sys, os
built = sys.argv[1].split(",")
m = {
 "version": 1,
 "setup_cmd": "cd /verif && /venv/bin/python -m compileall -q sim && /venv/bin/python -c \"import sys; sys.path.insert(0,'/repo'); import gfapy; print('gfapy', gfapy.__file__)\"",
 "hooks": {
  "guard": "GFAPY_VERIF_SIM",
  "enable": "no source hooks: the simulator owns the seams from outside (gfapy.gfa.open, gfapy.logger.time, PYTHONHASHSEED per worker interpreter, add_line as the record transport); GFAPY_VERIF_SIM=1 is set by the driver for its workers only and is never read by /repo",
  "baseline_off_cmd": "cd /repo && /venv/bin/python -m pytest -ra -q -p no:cacheprovider --timeout=900 --continue-on-collection-errors",
  "source_commits": [],
  "add_only": True
 },
 "engines": [{"name": "sim", "path": "/verif/sim", "serves_properties": built,
   "kind_free_text": "seeded deterministic simulation in pure Python: generated documents, scheduled delivery, fault ops, mutation histories, reference model, invariants after every step, ddmin-minimised replay files, one interpreter per PYTHONHASHSEED"}],
 "checks": [],
 "not_applicable": [],
 "notes": "All checks import gfapy from /repo's working tree in fresh interpreters. known_findings.jsonl is read-only at run time. See DESIGN.md."
}
for pid in sorted(CHECKS):
    text, ref = CHECKS[pid]
    if pid in built:
        m["checks"].append({
          "property_id": pid,
          "quick_cmd": "timeout 900 ./check %s --tier quick" % pid,
          "thorough_cmd": "timeout 3600 ./check %s --tier thorough" % pid,
          "evidence_file": "/verif/evidence/%s.json" % pid,
          "replay_cmd_template": "./check --replay {path}",
          "engine": "sim",
          "level_claimed": {"category": "exploration", "text": text + "; seeded sampling: a clean batch is evidence, not proof", "design_ref": "DESIGN.md " + ref},
          "level_note": "trusts the harness's reference model / observer (sim/model.py, sim/observe.py) and the public API as the only observation channel",
          "technique": TECH})
    else:
        m["not_applicable"].append({"property_id": pid, "reason": "check not built yet in this round (planned, see DESIGN.md %s)" % ref})
json.dump(m, open("/verif/MANIFEST.json", "w"), indent=1)
print("written", len(m["checks"]), "checks")
