#!/venv/bin/python
"""Sensitivity by reverting repairs: for every 'fixed:' record of known_findings.jsonl, reverse-apply the
fix commit to /repo's working tree, run the quick check of the property the record names, restore.
A check that stays green with the repair reverted does not cover what the repair was for.
Writes /verif/sensitivity_reverts.json.  usage: tools_revert_sens.py [commit-prefix ...]
"""
import glob
import json
import os
import re
import subprocess
os.environ["VERIF_EVIDENCE_DIR"] = "/verif/.work/evidence"   # never the committed evidence
import sys
import time


def sh(cmd, cwd=None, timeout=1800):
    p = subprocess.run(cmd, shell=True, cwd=cwd, stdout=subprocess.PIPE, stderr=subprocess.STDOUT, timeout=timeout)
    return p.returncode, p.stdout.decode(errors="replace")


recs = []
for ln in open("/verif/known_findings.jsonl"):
    m = re.match(r"^fixed: property=(C\d+) ([0-9a-f]{7,}) (.*)$", ln.strip())
    if m:
        recs.append(m.groups())
only = sys.argv[1:]
rc, out = sh("git -C /repo status --porcelain")
if out.strip():
    print("/repo is not clean, refusing")
    sys.exit(2)
path = "/verif/sensitivity_reverts.json"
res = json.load(open(path)) if os.path.exists(path) else {}
by_commit = {}
for prop, commit, what in recs:
    by_commit.setdefault(commit, []).append((prop, what))
for commit, items in by_commit.items():
    if only and not any(commit.startswith(o) for o in only):
        continue
    rc, out = sh("git -C /repo diff %s~1 %s > /tmp/revert-%s.diff && git -C /repo apply -R /tmp/revert-%s.diff" %
                 (commit, commit, commit, commit))
    if rc != 0:
        for prop, what in items:
            res["%s/%s" % (commit, prop)] = {"what": what, "result": "revert does not apply (later commits touch the same lines)"}
        print(commit, "revert does not apply")
        sh("git -C /repo checkout -- .")
        continue
    try:
        for prop, what in items:
            t0 = time.time()
            rc, out = sh("./check %s --tier quick" % prop, cwd="/verif", timeout=1500)
            clause = [l.strip() for l in out.split("\n") if l.strip().startswith("clause=")]
            res["%s/%s" % (commit, prop)] = {"what": what, "result": "caught" if rc == 1 else ("MISSED" if rc == 0 else "exit %d" % rc),
                                             "first": clause[0][:200] if clause else "", "wall_s": round(time.time() - t0, 1)}
            print(commit, prop, res["%s/%s" % (commit, prop)]["result"], clause[0][:120] if clause else "")
    finally:
        sh("git -C /repo checkout -- .")
        for f in glob.glob("/verif/replays/*.json"):
            os.remove(f)
        try:
            os.remove("/tmp/revert-%s.diff" % commit)
        except OSError:
            pass
    json.dump(res, open(path, "w"), indent=1, sort_keys=True)
rc, out = sh("git -C /repo status --porcelain")
print("repo clean:", not out.strip())
vals = [v["result"] for v in res.values()]
print("caught %d, missed %d, not applicable %d" % (vals.count("caught"), vals.count("MISSED"),
                                                   len(vals) - vals.count("caught") - vals.count("MISSED")))
