#!/venv/bin/python
"""Which gfapy code do the checks execute?  (maintenance helper, not a registered command)

usage: tools_coverage.py [N runs per property, default 400] [Cxx ...]
Runs the first N scenarios of every check's quick tier in-process under coverage.py (source = gfapy of
/repo), one sub-process per property, merges the data and prints, per file, the lines no check reached.
The report goes to /verif/.work/coverage/ (git-ignored); nothing is committed by this tool.
"""
import json
import os
import subprocess
import sys

VERIF = os.path.dirname(os.path.abspath(__file__))
OUT = "/tmp/verif-coverage"
PY = "/venv/bin/python"

CHILD = r'''
import sys, os, json
sys.path.insert(0, %(verif)r)
import coverage
cov = coverage.Coverage(data_file=%(data)r, source=[os.environ.get("GFAPY_REPO", "/repo") + "/gfapy"], branch=False)
cov.start()
from sim import engine, core
from sim.rng import Streams
from sim.core import Stats
prop = engine.load_prop(%(pid)r)
n = %(n)d
bad = 0
for i in range(n):
    rs = engine.run_seed(20261001, %(pid)r, i)
    scn = prop.gen(Streams(rs), "quick", i)
    scn["seed"] = rs; scn["run"] = i
    core.watchdog(120)
    try:
        v = engine.execute(prop, scn, Stats())
        if v is not None: bad += 1
    finally:
        core.watchdog_off()
cov.stop(); cov.save()
print(%(pid)r, "runs", n, "violations", bad)
'''


def main():
    args = sys.argv[1:]
    n = 400
    if args and args[0].isdigit():
        n = int(args.pop(0))
    props = args or ["C%02d" % i for i in range(1, 21)]
    os.makedirs(OUT, exist_ok=True)
    procs = []
    for pid in props:
        data = os.path.join(OUT, ".coverage.%s" % pid)
        if os.path.exists(data):
            os.remove(data)
        code = CHILD % {"verif": VERIF, "data": data, "pid": pid, "n": n}
        env = dict(os.environ, PYTHONHASHSEED="0", GFAPY_VERIF_SIM="1")
        procs.append((pid, subprocess.Popen([PY, "-c", code], env=env, cwd=VERIF)))
    for pid, p in procs:
        p.wait()
    import coverage
    cov = coverage.Coverage(data_file=os.path.join(OUT, ".coverage"), source=[os.environ.get("GFAPY_REPO", "/repo") + "/gfapy"])
    cov.combine([os.path.join(OUT, ".coverage.%s" % pid) for pid in props], keep=True)
    cov.save()
    with open(os.path.join(OUT, "report.txt"), "w") as f:
        cov.report(file=f, show_missing=True, skip_covered=True)
    print(open(os.path.join(OUT, "report.txt")).read())


if __name__ == "__main__":
    main()
