#!/venv/bin/python
"""Regenerates the seeded-change table of DESIGN.md §15 from seeded/*/meta.json."""
import glob, json, re
rows = []
for f in sorted(glob.glob("/verif/seeded/*/meta.json")):
    m = json.load(open(f))
    det = m.get("detected_by", {})
    caught = sorted(c for c, d in det.items() if d.get("exit") == 1)
    missed = sorted(c for c, d in det.items() if d.get("exit") == 0)
    note = m.get("strengthened", "")
    summ = re.sub(r"\s+", " ", m.get("summary", ""))[:150]
    needs = re.sub(r"\s+", " ", m.get("what_it_needs_to_manifest", ""))[:150]
    rows.append("| %s | %s | %s | %s | %s |" % (m["id"], summ.replace("|", "/"), needs.replace("|", "/"),
                                                ", ".join(caught) or "-", note or ("missed by " + ", ".join(missed) if missed and not caught else "")))
table = "| id | change | needs, to manifest | caught by (quick tier) | note |\n|---|---|---|---|---|\n" + "\n".join(rows)
p = "/verif/DESIGN.md"
s = open(p).read()
if "SEEDED_TABLE" in s:
    s = s.replace("SEEDED_TABLE", "<!-- seeded-table-begin -->\n" + table + "\n<!-- seeded-table-end -->")
else:
    s = re.sub(r"<!-- seeded-table-begin -->.*<!-- seeded-table-end -->", "<!-- seeded-table-begin -->\n" + table.replace("\\", "\\\\") + "\n<!-- seeded-table-end -->", s, flags=re.S)
open(p, "w").write(s)
print(len(rows), "rows")
