#!/venv/bin/python
"""Confirm a seeded change (from a sub-agent's scratch worktree) and run the checks against it.

usage: tools_seeded.py <property> <n> [--checks C02,C05] [--all]
  reads /tmp/wt-<property>/out/mutation<n>/{patch.diff,demo.py,meta.json}
  1. confirms in the scratch worktree: suite passes with the change, demo fails with / passes without it
  2. copies it to /verif/seeded/<property>-m<n>/
  3. applies it to /repo, runs the quick checks, undoes it (git checkout -- .), records who detected it
"""
import json
import os
import shutil
import subprocess
os.environ["VERIF_EVIDENCE_DIR"] = "/verif/.work/evidence"   # never the committed evidence
import sys
import time

prop, n = sys.argv[1], sys.argv[2]
src = "/tmp/wt-%s/out/mutation%s" % (prop, n)
wt = "/tmp/wt-%s" % prop
checks = [prop]
if "--checks" in sys.argv:
    checks = sys.argv[sys.argv.index("--checks") + 1].split(",")
if "--all" in sys.argv:
    checks = ["C%02d" % i for i in range(1, 21)]
asn = sys.argv[sys.argv.index("--as") + 1] if "--as" in sys.argv else n
sid = "%s-m%s" % (prop, asn)
dst = "/verif/seeded/%s" % sid
env = dict(os.environ, PYTHONHASHSEED="0")


def sh(cmd, cwd=None, timeout=1800):
    p = subprocess.run(cmd, shell=True, cwd=cwd, env=env, stdout=subprocess.PIPE, stderr=subprocess.STDOUT, timeout=timeout)
    return p.returncode, p.stdout.decode(errors="replace")


meta = json.load(open(os.path.join(src, "meta.json")))
meta["id"] = sid
ran = []
# ---- 1. confirmation in the scratch worktree
sh("git checkout -- gfapy", cwd=wt)
rc, out = sh("/venv/bin/python out/mutation%s/demo.py" % n, cwd=wt)
meta["demo_without_change"] = rc
ran.append("demo without change: exit %d" % rc)
rc, out = sh("git apply out/mutation%s/patch.diff" % n, cwd=wt)
if rc != 0:
    print("patch does not apply in the scratch worktree", out)
    sys.exit(2)
rc, out = sh("/venv/bin/python -m pytest -q -p no:cacheprovider 2>&1 | tail -4", cwd=wt)
failed = [l for l in out.split("\n") if l.startswith("FAILED") and "test_stable_sequence_names" not in l]
meta["suite_with_change"] = "passes (known hash-order dependent test excepted)" if not failed else "FAILS: %r" % failed
ran.append("suite with change: %s" % out.strip().split("\n")[-1])
rc, out = sh("/venv/bin/python out/mutation%s/demo.py" % n, cwd=wt)
meta["demo_with_change"] = rc
ran.append("demo with change: exit %d" % rc)
sh("git checkout -- gfapy", cwd=wt)
confirmed = (meta["demo_without_change"] == 0 and meta["demo_with_change"] != 0 and not failed)
meta["confirmed"] = confirmed
print(sid, "confirmed" if confirmed else "NOT CONFIRMED", ran)
if not confirmed:
    sys.exit(1)
os.makedirs(dst, exist_ok=True)
for f in ("patch.diff", "demo.py"):
    shutil.copy(os.path.join(src, f), os.path.join(dst, f))
# ---- 3. run the checks against /repo with the change applied
rc, out = sh("git -C /repo status --porcelain")
if out.strip():
    print("/repo is not clean, refusing", out)
    sys.exit(2)
rc, out = sh("git -C /repo apply %s/patch.diff" % dst)
if rc != 0:
    meta["applies_to_current_repo"] = False
    print("patch does not apply to the current /repo HEAD:", out[:300])
    json.dump(meta, open(os.path.join(dst, "meta.json"), "w"), indent=1)
    sys.exit(3)
meta["applies_to_current_repo"] = True
det = meta.get("detected_by", {})
try:
    for c in checks:
        t0 = time.time()
        rc, out = sh("./check %s --tier quick" % c, cwd="/verif", timeout=1500)
        vio = [l for l in out.split("\n") if l.startswith("VIOLATION")]
        clause = [l.strip() for l in out.split("\n") if l.strip().startswith("clause=")]
        det[c] = {"exit": rc, "violations": len(vio), "first": (clause[0][:300] if clause else ""), "wall_s": round(time.time() - t0, 1)}
        print("  %s: exit %d, %d violation line(s) %s" % (c, rc, len(vio), clause[0][:160] if clause else ""))
finally:
    sh("git -C /repo checkout -- .")
    sh("rm -f /verif/replays/*")
meta["detected_by"] = det
meta["what_was_run"] = ran + ["git -C /repo apply patch.diff; ./check <P> --tier quick; git -C /repo checkout -- ."]
json.dump(meta, open(os.path.join(dst, "meta.json"), "w"), indent=1)
rc, out = sh("git -C /repo status --porcelain")
print("repo clean:", not out.strip())
