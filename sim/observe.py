"""Passive observation of a gfapy.Gfa through its public API only.

The observer never calls a gfapy *operation* (no complement(), clone(),
validate(), is_eql ...): only str(), attribute reads and the collection
properties. H lines from gfa.headers are detached views, observed as text.
"""
import gfapy
from . import gtext

SEG_COLLS = ["dovetails_L", "dovetails_R", "edges_to_contained", "edges_to_containers",
             "internals", "gaps_L", "gaps_R", "fragments", "paths", "sets"]
BACK_COLLS = {
    "S": SEG_COLLS,
    "L": ["paths"],
    "E": ["paths", "sets"],
    "O": ["paths", "sets"],
    "U": ["sets"],
    "\n": ["paths", "sets"],
}
REF_FIELDS = {
    "L": ["from_segment", "to_segment"],
    "C": ["from_segment", "to_segment"],
    "P": ["segment_names"],
    "E": ["sid1", "sid2"],
    "G": ["sid1", "sid2"],
    "F": ["sid"],
    "O": ["items"],
    "U": ["items"],
}
NAMED_BY_LINE = ("S", "P", "E", "G", "O", "U", "\n")


UNREADABLE = []


class Unreadable:
    def __init__(self, exc):
        self.exc = exc

    def __repr__(self):
        return "<unreadable: %s>" % self.exc


def listed_lines(gfa):
    """Every non-header line the Gfa lists through its public collections."""
    return (gfa.segments + gfa.edges + gfa.paths + gfa.sets + gfa.gaps +
            gfa.fragments + gfa.custom_records + gfa.comments)


def is_named(line):
    try:
        n = line.name
    except Exception:
        return False
    return isinstance(n, str) and n != "*"


def ref_items(line):
    """[(field, idx, target, orient_or_None)] for every reference slot of a line.
    target is whatever sits there (Line, str, ...)."""
    out = []
    rt = line.record_type
    for fld in REF_FIELDS.get(rt, []):
        try:
            v = line.get(fld)
        except Exception as e:   # a raising read is C07/C18 business, not the observer's
            UNREADABLE.append((fld, type(e).__name__))
            out.append((fld, 0, Unreadable(type(e).__name__), None))
            continue
        if isinstance(v, list):
            for i, e in enumerate(v):
                if isinstance(e, gfapy.OrientedLine):
                    out.append((fld, i, e.line, e.orient))
                else:
                    out.append((fld, i, e, None))
        elif isinstance(v, gfapy.OrientedLine):
            out.append((fld, 0, v.line, v.orient))
        else:
            out.append((fld, 0, v, None))
    if rt == "P" and line.is_connected():
        for i, e in enumerate(line.links):
            if isinstance(e, gfapy.OrientedLine):
                out.append(("links", i, e.line, e.orient))
            else:
                out.append(("links", i, e, None))
    return out


def back_items(line):
    """[(collection, source_line)] for every public back-reference collection."""
    out = []
    for c in BACK_COLLS.get(line.record_type, []):
        try:
            lst = getattr(line, c)
        except AttributeError:
            continue
        for src in lst:
            out.append((c, src))
    return out


def reachable_lines(gfa):
    """listed lines plus everything reachable over references/back-references."""
    seen = {}
    stack = list(listed_lines(gfa))
    while stack:
        ln = stack.pop()
        if not isinstance(ln, gfapy.Line) or id(ln) in seen:
            continue
        seen[id(ln)] = ln
        for _f, _i, t, _o in ref_items(ln):
            if isinstance(t, gfapy.Line) and id(t) not in seen:
                stack.append(t)
        for _c, s in back_items(ln):
            if isinstance(s, gfapy.Line) and id(s) not in seen:
                stack.append(s)
        try:
            for s in ln.all_references:
                if isinstance(s, gfapy.OrientedLine):
                    s = s.line
                if isinstance(s, gfapy.Line) and id(s) not in seen:
                    stack.append(s)
        except Exception:
            pass
    return list(seen.values())


def line_text(line):
    try:
        return str(line)
    except Exception as e:  # str must not fail on a consistent line
        # an unwritable line (e.g. a tag that does not fit its declared datatype, written at level >= 2):
        # show what it stores, so that a change of another field stays visible
        raw = []
        try:
            tags = list(line.tagnames)
            for fn in list(line.positional_fieldnames) + tags:
                try:
                    raw.append(line.field_to_s(fn, tag=fn in tags))
                except Exception as e2:
                    raw.append("<%s unwritable: %s>" % (fn, type(e2).__name__))
        except Exception:
            pass
        return "<str failed: %s>%s" % (type(e).__name__, (" " + " | ".join(raw)) if raw else "")


def make_keys(gfa, lines=None):
    """id(line) -> stable key. Named lines: 'rt:name'; others: 'rt:<canon text>#k'."""
    if lines is None:
        lines = reachable_lines(gfa)
    version = gfa.version
    keys = {}
    anon = []
    for ln in lines:
        rt = ln.record_type
        if rt in NAMED_BY_LINE and is_named(ln):
            keys[id(ln)] = "%s:%s" % (rt if rt != "\n" else "?", ln.name)
        else:
            txt = line_text(ln)
            try:
                ct = gtext.canon_lines(txt, version if version in ("gfa1", "gfa2") else None)
                ct = ct[0] if ct else txt
            except Exception:
                ct = txt
            anon.append((ct, ln))
    anon.sort(key=lambda x: x[0])
    cnt = {}
    for ct, ln in anon:
        k = cnt.get(ct, 0)
        cnt[ct] = k + 1
        keys[id(ln)] = "%s:%s#%d" % (ln.record_type, ct, k)
    return keys


def _tkey(keys, t):
    if isinstance(t, gfapy.Line):
        return keys.get(id(t), "<unlisted %s>" % line_text(t))
    if isinstance(t, Unreadable):
        return repr(t)
    return "<str %r>" % (t,)


def observe(gfa):
    """Canonical JSON-able observation of everything a caller can see."""
    lines = reachable_lines(gfa)
    keys = make_keys(gfa, lines)
    graph = {}
    for ln in lines:
        k = keys[id(ln)]
        refs = []
        for f, i, t, o in ref_items(ln):
            refs.append([f, i, _tkey(keys, t), o])
        back = {}
        for c, s in back_items(ln):
            back.setdefault(c, []).append(_tkey(keys, s))
        for c in back:
            back[c].sort()
        ent = {"text": line_text(ln), "virtual": bool(ln.virtual),
               "owned": ln.gfa is gfa, "refs": refs, "back": back}
        if k in graph:
            k = k + "@dup"
        graph[k] = ent
    names = {}
    for attr in ("segment_names", "edge_names", "gap_names", "path_names", "set_names", "names"):
        names[attr] = sorted(n if isinstance(n, str) else "<non-str key>" for n in getattr(gfa, attr))
    lookup = {}
    for n in names["names"]:
        if n == "<non-str key>":
            continue
        l = gfa.line(n)
        lookup[n] = None if l is None else _tkey(keys, l)
    misc = {}
    try:
        misc["n_input_header_lines"] = gfa.n_input_header_lines
        h = gfa.header
        misc["header_value_classes"] = dict((t, type(h._data.get(t)).__name__) for t in sorted(h.tagnames))
    except Exception as e:      # an unreadable header is visible through "lines" already
        misc["unreadable"] = type(e).__name__
    return {
        "version": gfa.version,
        "lines": sorted(text_lines(gfa)),
        "names": names,
        "lookup": lookup,
        "graph": graph,
        "misc": misc,
    }


def text_lines(gfa):
    try:
        return [line_text(l) for l in gfa.lines]
    except Exception as e:
        # gfa.headers builds fresh H lines and validates them: a header holding an invalid value
        # makes the listing itself raise (C18's business); fall back to the other collections
        UNREADABLE.append(("gfa.lines", type(e).__name__))
        return ["<headers unreadable: %s>" % type(e).__name__] + [line_text(l) for l in listed_lines(gfa)]


# ------------------------------------------------------------------ abstract observation
def canon_key(line, version):
    """Canonical identity of a line comparable across Gfa objects (links modulo complement)."""
    txt = line_text(line)
    try:
        c = gtext.canon_lines(txt, version if version in ("gfa1", "gfa2") else None)
        return c[0] if c else txt
    except Exception:
        return txt


def abstract(gfa):
    """Order-free, complement-free observation for comparing different Gfa objects
    that should denote the same document (C03, C05 restart cross-check)."""
    v = gfa.version
    lines = reachable_lines(gfa)
    doc = gtext.canon_doc([line_text(l) for l in gfa.lines], v if v in ("gfa1", "gfa2") else None)
    segs = {}
    others = {}
    for l in lines:
        rt = l.record_type
        back = {}
        for c, s in back_items(l):
            back.setdefault(c, []).append(canon_key(s, v))
        for c in back:
            back[c].sort()
        if rt == "S":
            segs[l.name if is_named(l) else canon_key(l, v)] = {"virtual": bool(l.virtual), "back": back}
        elif back or l.virtual:
            others.setdefault(canon_key(l, v), []).append({"virtual": bool(l.virtual), "back": back})
    paths = {}
    for p in gfa.paths:
        if p.record_type == "P":
            trav = []
            try:
                sn = p.segment_names
                for i, ol in enumerate(p.links):
                    lk = ol.line
                    a = sn[i]
                    # resolved traversal: does the stored form run a -> next as written?
                    b = sn[(i + 1) % len(sn)]
                    direct = (lk.from_segment is a.line and lk.from_orient == a.orient and
                              lk.to_segment is b.line and lk.to_orient == b.orient)
                    compl = (lk.from_segment is b.line and lk.from_orient == gtext.inv(b.orient) and
                             lk.to_segment is a.line and lk.to_orient == gtext.inv(a.orient))
                    if direct and compl:
                        # a link from an end to the same end matches in both forms: forwards if the written
                        # overlap fits (or is unspecified), reversed if only the complement overlap fits
                        ovs = list(p.overlaps)
                        pov = ovs[i] if (len(ovs) > i and not (len(ovs) == 1 and not ovs[0])) else None
                        fits = (not lk.overlap) or (not pov) or str(lk.overlap) == str(pov)
                        ok = (ol.orient == ("+" if fits else "-"))
                    elif direct:
                        ok = (ol.orient == "+")
                    elif compl:
                        ok = (ol.orient == "-")
                    else:
                        ok = False    # the link does not join the two segments at all
                    trav.append([canon_key(lk, v), bool(lk.virtual), ok])
            except Exception as e:
                trav.append("<unreadable %s>" % type(e).__name__)
            paths[p.name] = trav
    virt = sorted(canon_key(l, v) for l in lines if l.virtual)
    return {"version": v, "doc": doc, "names": sorted(n for n in gfa.names if isinstance(n, str)),
            "segs": segs, "others": {k: others[k] for k in sorted(others)}, "paths": paths,
            "virtual": virt}
