"""Determinism self-tests (DESIGN §8).

 1. same seed twice, fresh interpreters, different worker counts: per-run event digests
    (scenario, counters, state digests, verdict) must be identical;
 2. the *generator* is hash-order independent: the scenario generated for a run seed is the
    same under PYTHONHASHSEED 0, 1 and 7.
Exit 0 when everything matches, 2 otherwise (never reported as a VIOLATION).
"""
import json
import os
import subprocess
import sys

from . import engine
from .rng import Streams, digest

ALL = ["C01", "C02", "C03", "C04", "C05", "C06", "C07", "C08", "C09", "C10", "C11", "C12", "C13", "C14", "C15",
       "C16", "C17", "C18", "C19", "C20"]


def built():
    out = []
    for p in ALL:
        if os.path.exists(os.path.join(engine.VERIF, "sim", "props", p.lower() + ".py")):
            out.append(p)
    return out


def gen_digests(pid, seed, n, tier="quick"):
    prop = engine.load_prop(pid)
    out = {}
    for i in range(n):
        rs = engine.run_seed(seed, pid, i)
        out[str(i)] = digest(prop.gen(Streams(rs), tier, i))
    return out


def main(argv):
    mode = argv[0] if argv else "quick"
    if mode == "--gen":
        pid, seed, n = argv[1], int(argv[2]), int(argv[3])
        print(json.dumps(gen_digests(pid, seed, n), sort_keys=True))
        return 0
    nruns = 120 if mode == "quick" else 1500
    ngen = 40 if mode == "quick" else 300
    props = argv[1].split(",") if len(argv) > 1 else built()
    seed = int(os.environ.get("VERIF_SEED", "424242"))
    bad = 0
    os.makedirs(engine.WORK, exist_ok=True)
    for pid in props:
        logs = []
        for jobs in (16, 4):
            f = os.path.join(engine.WORK, "selftest-%s-%d.json" % (pid, jobs))
            env = dict(os.environ, VERIF_LOGDIGEST=f, VERIF_NO_EVIDENCE="1", VERIF_JOBS=str(jobs), VERIF_SEED=str(seed))
            subprocess.call([engine.PY, os.path.join(engine.VERIF, "sim", "main.py"), pid, "--runs", str(nruns)],
                            env=env, stdout=subprocess.DEVNULL, stderr=subprocess.DEVNULL)
            try:
                logs.append(json.load(open(f)))
                os.remove(f)
            except Exception:
                logs.append(None)
        ok1 = logs[0] is not None and logs[0] == logs[1] and len(logs[0]) > 0
        gd = []
        for hs in ("0", "1", "7"):
            env = dict(os.environ, PYTHONHASHSEED=hs)
            o = subprocess.check_output([engine.PY, os.path.join(engine.VERIF, "sim", "main.py"), "--selftest", "--gen",
                                         pid, str(seed), str(ngen)], env=env)
            gd.append(json.loads(o))
        ok2 = gd[0] == gd[1] == gd[2]
        print("selftest %s: same-seed-twice (16 vs 4 workers, %d runs): %s ; generator under PYTHONHASHSEED 0/1/7 (%d runs): %s" %
              (pid, nruns, "identical" if ok1 else "DIFFER", ngen, "identical" if ok2 else "DIFFER"))
        if not ok1 and logs[0] and logs[1]:
            d = [k for k in logs[0] if logs[0].get(k) != logs[1].get(k)][:5]
            print("  differing runs: %r" % d)
        if not (ok1 and ok2):
            bad += 1
    return 2 if bad else 0
