"""Implementation-only invariants (no model needed): C02 closure/symmetry,
C09 registry coherence. Passive: only attribute reads and str()."""
import gfapy
from . import observe as ob


class Bad(Exception):
    """An invariant does not hold. clause = stable oracle clause id."""

    def __init__(self, clause, detail, rts=()):
        Exception.__init__(self, "%s: %s" % (clause, detail))
        self.clause = clause
        self.detail = detail
        self.rts = tuple(rts)


def _rt(l):
    rt = l.record_type
    return "?" if rt == "\n" else rt


def _found(gfa, t, listed_ids):
    """Is line t 'found' in gfa under its current identifier?"""
    rt = t.record_type
    if rt in ob.NAMED_BY_LINE and ob.is_named(t):
        return gfa.line(t.name) is t
    return id(t) in listed_ids


def closed_symmetric(gfa, removed=()):
    """C02. Raises Bad on the first violated clause."""
    listed = ob.listed_lines(gfa)
    listed_ids = set(id(l) for l in listed)
    for l in listed:
        if l.gfa is not gfa or not l.is_connected():
            raise Bad("owner", "listed line %r does not report the Gfa as owner" % ob.line_text(l),
                      [_rt(l)])
    if gfa.header.gfa is not gfa:
        raise Bad("owner", "gfa.header does not report the Gfa as owner", ["H"])
    lines = ob.reachable_lines(gfa)
    # references counted as (source id, target id) -> multiplicity
    fwd = {}
    for l in lines:
        if l.gfa is not gfa:
            raise Bad("reach-foreign", "reachable line %r is not a line of the Gfa (gfa=%s)" %
                      (ob.line_text(l), "None" if l.gfa is None else "other"), [_rt(l)])
        if not _found(gfa, l, listed_ids):
            raise Bad("not-found", "reachable line %r is not found under its identifier / in its collection"
                      % ob.line_text(l), [_rt(l)])
        for f, i, t, o in ob.ref_items(l):
            if isinstance(t, ob.Unreadable):
                return "unreadable"
            if not isinstance(t, gfapy.Line):
                raise Bad("bare-ref", "field %s[%d] of connected line %r holds %r instead of a line" %
                          (f, i, ob.line_text(l), t), [_rt(l)])
            fwd[(id(l), id(t))] = fwd.get((id(l), id(t)), 0) + 1
    back = {}
    byid = dict((id(l), l) for l in lines)
    for t in lines:
        if t.record_type == "P":
            continue   # a P line's _refs hold its own 'links', nobody references a P line
        try:
            refs = t.all_references
        except Exception as e:
            raise Bad("allrefs-exc", "all_references of %r raised %s" % (ob.line_text(t), type(e).__name__),
                      [_rt(t)])
        for s in refs:
            if isinstance(s, gfapy.OrientedLine):
                s = s.line
            if not isinstance(s, gfapy.Line):
                raise Bad("bare-backref", "back-reference of %r holds %r" % (ob.line_text(t), s), [_rt(t)])
            back[(id(s), id(t))] = back.get((id(s), id(t)), 0) + 1
            byid.setdefault(id(s), s)
    for key in sorted(set(fwd) | set(back), key=lambda k: (ob.line_text(byid[k[0]]), ob.line_text(byid[k[1]]))):
        a, b = fwd.get(key, 0), back.get(key, 0)
        if a != b:
            s, t = byid[key[0]], byid[key[1]]
            raise Bad("asymmetric",
                      "%r references %r %d time(s) but is back-referenced %d time(s)" %
                      (ob.line_text(s), ob.line_text(t), a, b), [_rt(s), _rt(t)])
    # the typed public collections must agree with all_references
    for t in lines:
        pub = 0
        colls = ob.BACK_COLLS.get(t.record_type)
        if colls is None:
            continue
        for c, s in ob.back_items(t):
            pub += 1
        try:
            tot = len(t.all_references)
        except Exception:
            tot = pub
        # (a U line can only be reached from U lines by the grammar; an O group listing a set is not a valid
        # document and leaves a 'paths' entry for which U has no public collection)
        if t.record_type in ("S", "L", "E", "O") and pub != tot:
            raise Bad("coll-mismatch", "%r: %d back-references in public collections, %d in all_references" %
                      (ob.line_text(t), pub, tot), [_rt(t)])
    for h in removed:
        if h.gfa is not None or h.is_connected():
            raise Bad("removed-owner", "removed line %r still reports an owner" % ob.line_text(h), [_rt(h)])
        if id(h) in byid:
            raise Bad("removed-reachable", "removed line %r is still reachable" % ob.line_text(h), [_rt(h)])


def registry_coherent(gfa):
    """C09 (implementation side): names lists vs lines, uniqueness, lookup identity."""
    pairs = [("segment_names", gfa.segments), ("path_names", gfa.paths),
             ("set_names", gfa.sets), ("gap_names", gfa.gaps)]
    for attr, coll in pairs:
        a = sorted(getattr(gfa, attr))
        b = sorted(l.name for l in coll if ob.is_named(l))
        if a != b:
            raise Bad("names-vs-lines", "%s=%r but the lines carry %r" % (attr, a, b), [attr[0].upper()])
    en = sorted(gfa.edge_names)
    eb = sorted(l.name for l in gfa.edges if ob.is_named(l))
    if en != eb:
        raise Bad("names-vs-lines", "edge_names=%r but the edges carry %r" % (en, eb), ["E"])
    names = gfa.names
    if len(set(names)) != len(names):
        dup = sorted(n for n in set(names) if names.count(n) > 1)
        raise Bad("names-dup", "identifiers listed more than once: %r" % dup, [])
    for l in ob.listed_lines(gfa):
        if ob.is_named(l) and l.record_type in ("S", "P", "E", "G", "O", "U"):
            f = gfa.line(l.name)
            if f is not l:
                raise Bad("lookup", "gfa.line(%r) returns %s, not the line carrying it" %
                          (l.name, "None" if f is None else repr(ob.line_text(f))), [l.record_type])
            if l.record_type == "S" and gfa.segment(l.name) is not l:
                raise Bad("lookup", "gfa.segment(%r) does not return the segment" % l.name, ["S"])
