"""Independent recogniser of single GFA1 / GFA2 records, written from the
specification grammars (GFA 1.0, GFA 2.0), not from gfapy's regexes.

recognise(text, version) -> 'valid' | 'invalid' | 'unspec'
'unspec' = the specifications are silent or ambiguous, or gfapy documents its
own reading: the oracle skips the case.
"""
import json
import re

ID1 = re.compile(r"^[!-)+-<>-~][!-~]*$")        # GFA1 segment / path name
SEQ1 = re.compile(r"^(\*|[A-Za-z=.]+)$")
ORI = re.compile(r"^[+-]$")
CIG1 = re.compile(r"^(\*|([0-9]+[MIDNSHPX=])+)$")
INT = re.compile(r"^[-+]?[0-9]+$")
UINT = re.compile(r"^[0-9]+$")
ID2 = re.compile(r"^[!-~]+$")
REF2 = re.compile(r"^[!-~]+[+-]$")
SEQ2 = re.compile(r"^(\*|[!-~]+)$")
POS2 = re.compile(r"^[0-9]+\$?$")
CIG2 = re.compile(r"^([0-9]+[MDIP])+$")
TRACE = re.compile(r"^[0-9]+(,[0-9]+)*$")
TAG = re.compile(r"^([A-Za-z][A-Za-z0-9]):([AifZJHB]):(.*)$", re.S)
TAGVAL = {
    "A": re.compile(r"^[!-~]$"),
    "i": INT,
    "f": re.compile(r"^[-+]?[0-9]*\.?[0-9]+([eE][-+]?[0-9]+)?$"),
    "Z": re.compile(r"^[ !-~]+$"),
    "J": re.compile(r"^[ !-~]+$"),
    "H": re.compile(r"^([0-9A-F][0-9A-F])+$"),
    "B": re.compile(r"^[cCsSiIf](,[-+]?[0-9]*\.?[0-9]+([eE][-+]?[0-9]+)?)+$"),
}
BRANGE = {"c": (-128, 127), "C": (0, 255), "s": (-32768, 32767), "S": (0, 65535),
          "i": (-2 ** 31, 2 ** 31 - 1), "I": (0, 2 ** 32 - 1)}
PREDEF = {
    ("gfa1", "H"): {"VN": "Z", "TS": "i"},
    ("gfa1", "S"): {"LN": "i", "RC": "i", "FC": "i", "KC": "i", "SH": "H", "UR": "Z"},
    ("gfa1", "L"): {"MQ": "i", "NM": "i", "RC": "i", "FC": "i", "KC": "i", "ID": "Z"},
    ("gfa1", "C"): {"RC": "i", "NM": "i", "ID": "Z"},      # (GFA1 specification; MQ on a C line is not predefined)
    ("gfa1", "P"): {},
    ("gfa2", "H"): {"VN": "Z", "TS": "i"},
    ("gfa2", "S"): {"RC": "i", "FC": "i", "KC": "i", "SH": "H", "UR": "Z"},
    ("gfa2", "E"): {"TS": "i"},
    ("gfa2", "F"): {"TS": "i"},
    ("gfa2", "G"): {},
    ("gfa2", "O"): {},
    ("gfa2", "U"): {},
}
NPOS = {("gfa1", "H"): 0, ("gfa1", "S"): 2, ("gfa1", "L"): 5, ("gfa1", "C"): 6, ("gfa1", "P"): 3,
        ("gfa2", "H"): 0, ("gfa2", "S"): 3, ("gfa2", "E"): 8, ("gfa2", "F"): 7, ("gfa2", "G"): 5,
        ("gfa2", "O"): 2, ("gfa2", "U"): 2}


def tag_ok(field, predefined):
    """-> 'valid'/'invalid'/'unspec' and the tag name"""
    m = TAG.match(field)
    if not m:
        return "invalid", None
    n, t, v = m.groups()
    if not TAGVAL[t].match(v):
        return "invalid", n
    if t == "B":
        st = v[0]
        vals = v.split(",")[1:]
        if st != "f":
            for x in vals:
                if not INT.match(x):
                    return "invalid", n
                if not (BRANGE[st][0] <= int(x) <= BRANGE[st][1]):
                    return "invalid", n
        else:
            try:
                if any(float(x) in (float("inf"), float("-inf")) for x in vals):
                    return "unspec", n      # matches the grammar but overflows a double
            except Exception:
                pass
    if t == "J":
        def _no_constant(name):
            raise ValueError(name)       # NaN, Infinity, -Infinity are not JSON
        try:
            o = json.loads(v, parse_constant=_no_constant)
        except Exception:
            return "invalid", n
        if not isinstance(o, (list, dict)):
            return "unspec", n          # scalar JSON: the specifications do not say
    if t == "f":
        try:
            if float(v) in (float("inf"), float("-inf")):
                return "unspec", n      # matches the grammar but overflows a double
        except Exception:
            pass
    if n in predefined:
        if predefined[n] != t:
            return "invalid", n
    elif n.isupper() and len(n) == 2 and n.isalpha():
        # upper-case tag names are reserved by the specification; gfapy accepts them as custom tags
        return "unspec", n
    return "valid", n


_LONGNUM = re.compile(r"[0-9]{4000,}")


def recognise(text, version):
    if text == "":
        return "unspec"
    if text.startswith("#"):
        return "valid" if "\n" not in text else "unspec"
    if "\n" in text:
        return "invalid"        # no field of any record admits a line break
    if "\r" in text:
        return "unspec"
    if _LONGNUM.search(text):
        # a number longer than the implementation language converts: grammatical, but an implementation limit
        return "unspec"
    f = text.split("\t")
    rt = f[0]
    key = (version, rt)
    if key not in NPOS:
        # GFA2: any other record type is a custom record; GFA1 1.0: other lines 'should be ignored',
        # gfapy refuses them: the specifications leave room
        return "unspec"
    np_ = NPOS[key]
    if len(f) - 1 < np_:
        return "invalid"
    pos, tags = f[1:1 + np_], f[1 + np_:]
    res = "valid"

    def bad():
        return "invalid"
    # ---- positional fields
    if key == ("gfa1", "S"):
        if not ID1.match(pos[0]) or not SEQ1.match(pos[1]):
            return bad()
        if re.search(r"[+-],", pos[0]):
            res = "unspec"
    elif key == ("gfa1", "L"):
        if not (ID1.match(pos[0]) and ORI.match(pos[1]) and ID1.match(pos[2]) and ORI.match(pos[3]) and CIG1.match(pos[4])):
            return bad()
    elif key == ("gfa1", "C"):
        if not (ID1.match(pos[0]) and ORI.match(pos[1]) and ID1.match(pos[2]) and ORI.match(pos[3]) and
                UINT.match(pos[4]) and CIG1.match(pos[5])):
            return bad()
    elif key == ("gfa1", "P"):
        if not ID1.match(pos[0]):
            return bad()
        segs = pos[1].split(",")
        for s in segs:
            if len(s) < 2 or not ORI.match(s[-1]) or not ID1.match(s[:-1]):
                return bad()
        ovs = pos[2].split(",")
        for o in ovs:
            if not CIG1.match(o):
                return bad()
        if not (len(ovs) == len(segs) - 1 or len(ovs) == len(segs) or ovs == ["*"]):
            return bad()
        if len(ovs) == len(segs) and len(segs) == 1 and ovs != ["*"]:
            res = "unspec"
        if "*" in ovs and ovs != ["*"]:
            res = "unspec"
    elif key == ("gfa2", "S"):
        if not (ID2.match(pos[0]) and UINT.match(pos[1]) and SEQ2.match(pos[2])):
            if INT.match(pos[1]) and ID2.match(pos[0]) and SEQ2.match(pos[2]):
                return "unspec"      # '+5' / negative length: grammar says <int>
            return bad()
        if pos[0] == "*":
            return bad()         # the placeholder of optional identifiers is not an identifier
    elif key in (("gfa2", "E"), ("gfa2", "F")):
        if key == ("gfa2", "E"):
            ids_ok = (pos[0] == "*" or ID2.match(pos[0])) and REF2.match(pos[1]) and REF2.match(pos[2])
        else:
            ids_ok = ID2.match(pos[0]) and REF2.match(pos[1])
        if not ids_ok:
            return bad()
        if key == ("gfa2", "F") and pos[0] == "*":
            res = "unspec"       # '*' where a (non-optional) segment identifier is expected
        p = pos[3:7] if key == ("gfa2", "E") else pos[2:6]
        aln = pos[7] if key == ("gfa2", "E") else pos[6]
        if not all(POS2.match(x) for x in p):
            return bad()
        for b, e in ((p[0], p[1]), (p[2], p[3])):
            if int(b.rstrip("$")) > int(e.rstrip("$")):
                return bad()
            if b.endswith("$") and not e.endswith("$"):
                if int(b.rstrip("$")) == 0:
                    res = "unspec"     # '0$': last position of an empty segment
                else:
                    return bad()
        if not (aln == "*" or TRACE.match(aln) or CIG2.match(aln)):
            return bad()
    elif key == ("gfa2", "G"):
        if not ((pos[0] == "*" or ID2.match(pos[0])) and REF2.match(pos[1]) and REF2.match(pos[2])):
            return bad()
        if not INT.match(pos[3]):
            return bad()
        if not (pos[4] == "*" or INT.match(pos[4])):
            return bad()
        if pos[3].startswith("+") or (pos[4] != "*" and not UINT.match(pos[4])):
            res = "unspec"
    elif key == ("gfa2", "O"):
        if not (pos[0] == "*" or ID2.match(pos[0])):
            return bad()
        items = pos[1].split(" ")
        if not all(REF2.match(x) for x in items):
            return bad()
    elif key == ("gfa2", "U"):
        if not (pos[0] == "*" or ID2.match(pos[0])):
            return bad()
        items = pos[1].split(" ")
        if not all(ID2.match(x) for x in items):
            return bad()
    # ---- tags
    seen = set()
    pre = PREDEF[key]
    for t in tags:
        r, n = tag_ok(t, pre)
        if r == "invalid":
            return "invalid"
        if r == "unspec":
            res = "unspec"
        if n in seen:
            return "invalid"
        seen.add(n)
    # ---- cross-field rules
    if key == ("gfa1", "S") and pos[1] != "*":
        for t in tags:
            if t.startswith("LN:i:") and INT.match(t[5:]) and int(t[5:]) != len(pos[1]):
                return "invalid"
    return res
