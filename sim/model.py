"""The reference model: a GFA document as text records (DESIGN §3).

Independent of gfapy. Works on tokenised lines (gtext.PLine). Every function is
the executable form of a sentence of a property statement.
"""
from . import gtext
from .gtext import inv, cigar_complement, PLine

GROUPS = ("O", "U")


class Doc:
    def __init__(self, version, lines=()):
        self.version = version          # 'gfa1' | 'gfa2'
        self.header = []                # [(n,t,v)] in arrival order
        self.recs = []                  # PLine, arrival order (no H)
        self.unspecified = None         # reason string when the model cannot predict any more
        for ln in lines:
            self.add_text(ln)

    # ------------------------------------------------------------ basic views
    def copy(self):
        d = Doc(self.version)
        d.header = list(self.header)
        d.recs = [PLine(r.rt, list(r.pos), list(r.tags), r.version, r.raw) for r in self.recs]
        d.unspecified = self.unspecified
        return d

    def name_of(self, r):
        if r.rt in ("S", "P", "E", "G", "O", "U"):
            if r.rt == "P" and self.version != "gfa1":
                return None
            if r.pos and r.pos[0] != "*":
                return r.pos[0]
            return None
        if r.rt in ("L", "C") and self.version == "gfa1":
            t = r.tag("ID")
            if t and t[1] != "*":
                return t[1]
        return None

    def namespace(self):
        ns = {}
        for r in self.recs:
            n = self.name_of(r)
            if n is not None:
                ns.setdefault(n, []).append(r)
        return ns

    def by_name(self, name):
        for r in self.recs:
            if self.name_of(r) == name:
                return r
        return None

    def seg_mentions(self, r):
        """identifiers that must be segments"""
        if r.rt in ("L", "C") and self.version == "gfa1":
            return [r.pos[0], r.pos[2]]
        if r.rt == "P" and self.version == "gfa1":
            return [x[:-1] for x in r.pos[1].split(",")]
        if r.rt in ("E", "G") and self.version == "gfa2":
            return [r.pos[1][:-1], r.pos[2][:-1]]
        if r.rt == "F" and self.version == "gfa2":
            return [r.pos[0]]
        return []

    def item_mentions(self, r):
        """identifiers a group lists (any named line)"""
        if self.version != "gfa2":
            return []
        if r.rt == "O":
            return [x[:-1] for x in r.pos[1].split(" ") if x]
        if r.rt == "U":
            return [x for x in r.pos[1].split(" ") if x]
        return []

    def mentions(self, r):
        return self.seg_mentions(r) + self.item_mentions(r)

    def all_mentions(self):
        out = set()
        for r in self.recs:
            out.update(self.mentions(r))
        return out

    def path_links(self, r):
        """[(from, fo, to, too, overlap)] links a GFA1 path needs"""
        segs = [(x[:-1], x[-1]) for x in r.pos[1].split(",")]
        ovs = r.pos[2].split(",")
        n = len(segs)
        if n == 1:
            return []
        undef = (ovs == ["*"])
        circular = (not undef) and len(ovs) == n
        out = []
        for i in range(n):
            j = i + 1
            if j == n:
                if circular:
                    j = 0
                else:
                    break
            ov = "*" if undef else ovs[i]
            out.append((segs[i][0], segs[i][1], segs[j][0], segs[j][1], ov))
        return out

    def find_links(self, frm, fo, to, too, ov):
        """stored L records compatible with the oriented pair (either form)"""
        out = []
        for r in self.recs:
            if r.rt != "L":
                continue
            a, b = gtext.link_forms(r.pos)
            for form, direct in ((a, True), (b, False)):
                if form[:4] == (frm, fo, to, too) and (ov == "*" or form[4] == "*" or form[4] == ov):
                    out.append((r, direct))
                    break
        return out

    def dangling(self):
        ns = self.namespace()
        out = set()
        star_req = {}
        for r in self.recs:
            for s in self.seg_mentions(r):
                if not any(x.rt == "S" for x in ns.get(s, [])):
                    out.add(s)
            for s in self.item_mentions(r):
                if s not in ns:
                    out.add(s)
            if r.rt == "P" and self.version == "gfa1":
                for lk in self.path_links(r):
                    found = self.find_links(*lk)
                    if not found:
                        out.add("link:%s%s>%s%s" % lk[:4])
                    elif lk[4] != "*" and all(q.pos[4] == "*" for q, _d in found):
                        # only links with an unspecified overlap answer this requirement
                        a, b = gtext.link_forms(lk)
                        key = frozenset([a[:4], b[:4]])
                        ovs = star_req.setdefault(key, set())
                        ovs.add(a[4] if a[:4] <= b[:4] else b[4])
        for key, ovs in star_req.items():
            if len(ovs) > 1:
                # paths ask for links with *different* overlaps between the same two ends and the document only
                # has links whose overlap is '*': whether one such link stands for all of them is not specified
                out.add("link-with-unspecified-overlap-for-several-overlaps")
        return out

    def settled(self):
        return not self.dangling() and self.unspecified is None

    # ------------------------------------------------------------ add
    def add_text(self, line):
        """Add a record (text). Returns 'ok' | 'merged' | 'dup-complement' |
        ('fail', kind)  with kind in NotUnique / Version / unspecified."""
        if line == "":
            return "ok"
        r = gtext.tokenize(line, self.version)
        if r.rt == "#":
            self.recs.append(r)
            return "ok"
        if r.rt == "H":
            for n, t, v in r.tags:
                self.header.append((n, t, v))
            return "ok"
        name = self.name_of(r)
        if r.rt == "L" and self.version == "gfa1" and len(r.pos) == 5:
            # the complement of a stored link (carrying the same ID, if any) is the same edge
            a, b = gtext.link_forms(r.pos)
            for q in self.recs:
                if q.rt == "L" and tuple(q.pos) == b and self.name_of(q) == name:
                    return "dup-complement"
        # an identifier mentioned as a segment cannot be defined as anything else, and vice versa
        ns0 = self.namespace()
        if name is not None and r.rt != "S":
            if any(name in self.seg_mentions(q) for q in self.recs):
                return ("fail", "mention-clash")
        for s in self.seg_mentions(r):
            if any(x.rt != "S" for x in ns0.get(s, [])) or (name is not None and s == name and r.rt != "S"):
                return ("fail", "mention-clash")
        if name is not None and name in self.mentions(r) and r.rt in GROUPS:
            return ("fail", "self-mention")
        if name is not None:
            prev = self.namespace().get(name, [])
            if prev:
                p = prev[0]
                if r.rt in GROUPS and p.rt == r.rt:
                    # documented merge: items concatenated in arrival order, tags united
                    ptags = dict((n, (t, v)) for n, t, v in p.tags)
                    for n, t, v in r.tags:
                        if n in ptags and ptags[n] != (t, v):
                            return ("fail", "NotUnique")
                    sep = " "
                    p.pos[1] = (p.pos[1] + sep + r.pos[1]).strip()
                    for n, t, v in r.tags:
                        if n not in ptags:
                            p.tags.append((n, t, v))
                    return "merged"
                return ("fail", "NotUnique")
        if r.rt == "L" and self.version == "gfa1":
            a, b = gtext.link_forms(r.pos)
            for q in self.recs:
                if q.rt != "L":
                    continue
                qa, qb = gtext.link_forms(q.pos)
                if tuple(q.pos) == a and a != b:
                    return ("fail", "unspecified-identical-link")
                if tuple(q.pos) == b:
                    return "dup-complement"
                # compatible overlaps ('*' vs specified) on the same oriented pair
                if (qa[:4] == a[:4] and ("*" in (qa[4], a[4]))) or \
                        (qb[:4] == a[:4] and ("*" in (qb[4], a[4]))):
                    return ("fail", "unspecified-compatible-link")
        self.recs.append(r)
        return "ok"

    # ------------------------------------------------------------ remove
    def cascade(self, targets):
        """Exact removal set of C05 (identity set of records), transitively.
        Returns (removed records, unmention list [(group record, name)])."""
        removed = []
        rem_ids = set()
        work = list(targets)
        while work:
            r = work.pop()
            if id(r) in rem_ids:
                continue
            rem_ids.add(id(r))
            removed.append(r)
            name = self.name_of(r)
            for q in self.recs:
                if id(q) in rem_ids:
                    continue
                if r.rt == "S":
                    if name in self.seg_mentions(q):
                        work.append(q)
                        continue
                    if q.rt in GROUPS and name in self.item_mentions(q):
                        work.append(q)
                        continue
                if r.rt == "L" and self.version == "gfa1" and q.rt == "P":
                    for lk in self.path_links(q):
                        m = self.find_links(*lk)
                        if any(x is r for x, _d in m):
                            if len(m) > 1:
                                # which of several compatible links the path was bound to
                                # depends on arrival order: not predicted
                                self.unspecified = "path %s over parallel links" % self.name_of(q)
                            work.append(q)
                            break
                if r.rt in ("E", "O", "U") and self.version == "gfa2" and name is not None:
                    if q.rt in GROUPS and name in self.item_mentions(q):
                        work.append(q)
        unmention = []
        for r in removed:
            if r.rt == "G" and self.name_of(r) is not None:
                for q in self.recs:
                    if id(q) not in rem_ids and q.rt in GROUPS and self.name_of(r) in self.item_mentions(q):
                        unmention.append((q, self.name_of(r)))
        return removed, unmention

    def remove(self, targets):
        removed, unmention = self.cascade(targets)
        ids = set(id(r) for r in removed)
        self.recs = [r for r in self.recs if id(r) not in ids]
        for q, name in unmention:
            items = [x for x in q.pos[1].split(" ") if x]
            if q.rt == "O":
                items = [x for x in items if x[:-1] != name]
            else:
                items = [x for x in items if x != name]
            q.pos[1] = " ".join(items)
            if not items:
                self.unspecified = "group %s left without items" % self.name_of(q)
        return removed

    # ------------------------------------------------------------ rename
    def rename(self, old, new):
        """Rewrite the identifier in its definition and in every mention, nothing else."""
        tgt = self.by_name(old)
        if tgt is None:
            return False
        is_seg = tgt.rt == "S"
        for r in self.recs:
            if r is tgt:
                if r.rt in ("L", "C"):
                    r.tags = [(n, t, (new if n == "ID" else v)) for n, t, v in r.tags]
                else:
                    r.pos[0] = new
                continue
            if self.version == "gfa1":
                if is_seg and r.rt in ("L", "C"):
                    if r.pos[0] == old:
                        r.pos[0] = new
                    if r.pos[2] == old:
                        r.pos[2] = new
                if is_seg and r.rt == "P":
                    r.pos[1] = ",".join((new + x[-1]) if x[:-1] == old else x for x in r.pos[1].split(","))
            else:
                if is_seg and r.rt in ("E", "G"):
                    for i in (1, 2):
                        if r.pos[i][:-1] == old:
                            r.pos[i] = new + r.pos[i][-1]
                if is_seg and r.rt == "F" and r.pos[0] == old:
                    r.pos[0] = new
                if r.rt == "O":
                    r.pos[1] = " ".join((new + x[-1]) if x[:-1] == old else x for x in r.pos[1].split(" "))
                if r.rt == "U":
                    r.pos[1] = " ".join(new if x == old else x for x in r.pos[1].split(" "))
        return True

    # ------------------------------------------------------------ tags
    def set_tag(self, r, name, dtype, value_str):
        for i, (n, t, v) in enumerate(r.tags):
            if n == name:
                r.tags[i] = (n, dtype or t, value_str)
                return
        r.tags.append((name, dtype, value_str))

    def del_tag(self, r, name):
        r.tags = [x for x in r.tags if x[0] != name]

    # ------------------------------------------------------------ render
    def render(self):
        out = ["H\t%s:%s:%s" % t for t in self.header]
        out += [r.render() for r in self.recs]
        return out

    def canon(self):
        return gtext.canon_doc(self.render(), self.version)

    def find(self, text):
        """record whose canonical text equals that of 'text'"""
        want = gtext.canon_lines(text, self.version)
        for r in self.recs:
            if gtext.canon_lines(r.render(), self.version) == want:
                return r
        return None

    # ------------------------------------------------------------ topology (C11/C16)
    def seglen(self, name):
        s = None
        for r in self.namespace().get(name, []):
            if r.rt == "S":
                s = r
        if s is None:
            return None
        if self.version == "gfa2":
            return int(s.pos[1])
        if s.pos[1] != "*":
            return len(s.pos[1])
        t = s.tag("LN")
        return int(t[1]) if t else None


def interval_kind(b, e):
    """GFA2 interval classification from the specification prose:
    b,e are position strings ('0', '12', '20$')."""
    bl, el = b.endswith("$"), e.endswith("$")
    bv, ev = int(b.rstrip("$")), int(e.rstrip("$"))
    first_b, first_e = (bv == 0), (ev == 0)
    if first_b:
        if first_e:
            return "pfx"       # empty prefix
        if el:
            return "whole"
        return "pfx"
    if bl:
        return "sfx"           # empty suffix (b is the last position, so e is too)
    if el:
        return "sfx"
    return "internal"


def classify_edge(o1, b1, e1, o2, b2, e2):
    """-> (type, key1, key2): type in dovetail/containment/internal and, per side,
    the segment collection the edge is filed in ('dovetails_L' ...)."""
    k1, k2 = interval_kind(b1, e1), interval_kind(b2, e2)
    if k1 == "whole" and k2 == "whole":
        return "containment", "either", "either"
    if k1 == "whole":
        # s1 is wholly aligned => s1 is contained in s2
        return "containment", "edges_to_containers", "edges_to_contained"
    if k2 == "whole":
        return "containment", "edges_to_contained", "edges_to_containers"
    # an end of a segment: prefix = L end, suffix = R end (forward coordinates);
    # with equal orientations a dovetail joins a suffix to a prefix, with
    # opposite orientations it joins two prefixes or two suffixes
    if o1 == o2:
        if k1 == "pfx" and k2 == "sfx":
            return "dovetail", "dovetails_L", "dovetails_R"
        if k1 == "sfx" and k2 == "pfx":
            return "dovetail", "dovetails_R", "dovetails_L"
    else:
        if k1 == "pfx" and k2 == "pfx":
            return "dovetail", "dovetails_L", "dovetails_L"
        if k1 == "sfx" and k2 == "sfx":
            return "dovetail", "dovetails_R", "dovetails_R"
    return "internal", "internals", "internals"


def link_ends(fo, too):
    """GFA1 L line: (end of from-segment, end of to-segment)"""
    return ("R" if fo == "+" else "L"), ("L" if too == "+" else "R")


def gap_ends(o1, o2):
    """G line: filed by the orientations of its two sides (like a link sid1 -> sid2)"""
    return ("R" if o1 == "+" else "L"), ("L" if o2 == "+" else "R")


class UnionFind:
    def __init__(self, items):
        self.p = dict((x, x) for x in items)

    def find(self, x):
        while self.p[x] != x:
            self.p[x] = self.p[self.p[x]]
            x = self.p[x]
        return x

    def union(self, a, b):
        a, b = self.find(a), self.find(b)
        if a != b:
            self.p[a] = b

    def classes(self):
        out = {}
        for x in self.p:
            out.setdefault(self.find(x), set()).add(x)
        return set(frozenset(v) for v in out.values())
