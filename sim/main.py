"""Entry point (run as a script so that no sim module is loaded twice)."""
import os
import sys

HERE = os.path.dirname(os.path.abspath(__file__))
sys.path.insert(0, os.path.dirname(HERE))
sys.dont_write_bytecode = False


def main():
    a = sys.argv[1:]
    from sim import engine
    if a and a[0] == "--worker":
        engine.worker_main(a[1:])
        return 0
    if a and a[0] == "--replay":
        engine.replay_main(a[1])
        return 0
    if a and a[0] == "--selftest":
        from sim import selftest
        return selftest.main(a[1:])
    if not a:
        print("usage: check <Cxx> [--tier quick|thorough] [--runs N] | --replay <file> | --selftest")
        return 2
    pid = a[0].upper()
    tier = os.environ.get("VERIF_TIER", "quick")
    runs = None
    i = 1
    while i < len(a):
        if a[i] == "--tier":
            tier = a[i + 1]
            i += 2
        elif a[i] == "--runs":
            runs = int(a[i + 1])
            i += 2
        else:
            print("unknown argument", a[i])
            return 2
    seed = int(os.environ.get("VERIF_SEED", "20261001" if tier == "quick" else "7"))
    return engine.check_main(pid, tier, seed, nruns=runs)


if __name__ == "__main__":
    sys.exit(main())
