"""Core of the simulator: violations, guarded calls into gfapy, statistics,
deterministic step budget, watchdog."""
import os
import signal
import sys
import traceback

REPO = os.environ.get("GFAPY_REPO", "/repo")
if REPO not in sys.path:
    sys.path.insert(0, REPO)
import gfapy  # noqa: E402

GFAPY_DIR = os.path.dirname(os.path.abspath(gfapy.__file__))
assert GFAPY_DIR.startswith(os.path.abspath(REPO)), \
    "gfapy must be imported from the working tree of %s, not %s" % (REPO, GFAPY_DIR)


class Violation(Exception):
    """The property under check was contradicted."""

    def __init__(self, clause, detail, **fp):
        Exception.__init__(self, "%s: %s" % (clause, detail))
        self.clause = clause
        self.detail = detail
        self.fp = fp            # extra fingerprint fields (op kind, rts, exc, frame)

    def fingerprint(self, prop):
        d = {"property": prop, "clause": self.clause}
        for k in sorted(self.fp):
            d[k] = self.fp[k]
        return d


class HarnessTimeout(BaseException):
    pass


class BudgetExceeded(BaseException):
    """Deterministic line-event budget exhausted (C07 liveness)."""


def gfapy_frame(exc):
    """innermost gfapy frame 'file:function' of an exception, or None."""
    tb = exc.__traceback__
    last = None
    while tb is not None:
        fn = tb.tb_frame.f_code.co_filename
        if os.path.abspath(fn).startswith(GFAPY_DIR):
            last = "%s:%s" % (os.path.relpath(fn, GFAPY_DIR), tb.tb_frame.f_code.co_name)
        tb = tb.tb_next
    return last


def innermost_file(exc):
    tb = exc.__traceback__
    fn = None
    while tb is not None:
        fn = tb.tb_frame.f_code.co_filename
        tb = tb.tb_next
    return fn


class Outcome:
    __slots__ = ("ok", "value", "exc", "kind", "frame")

    def __init__(self, ok, value=None, exc=None):
        self.ok = ok
        self.value = value
        self.exc = exc
        if exc is None:
            self.kind = "ok"
            self.frame = None
        else:
            self.kind = "gfapy" if isinstance(exc, gfapy.Error) else "foreign"
            self.frame = gfapy_frame(exc)

    @property
    def excname(self):
        return type(self.exc).__name__ if self.exc is not None else "-"

    def __repr__(self):
        return "Outcome(%s %s)" % (self.kind, self.excname)


def call(fn, *a, **kw):
    """Enter gfapy. Returns Outcome; never lets a gfapy-side exception escape.
    Exceptions whose innermost frame is harness code and that never touched
    gfapy are harness errors and propagate."""
    try:
        return Outcome(True, fn(*a, **kw))
    except (HarnessTimeout, BudgetExceeded, Violation):
        raise
    except RecursionError as e:
        return Outcome(False, exc=e)
    except Exception as e:
        if gfapy_frame(e) is None and not isinstance(e, gfapy.Error):
            # never entered gfapy code: a bug of the harness (or of the call site)
            raise
        return Outcome(False, exc=e)


class Stats:
    def __init__(self):
        self.c = {}
        self.states = set()
        self.scheds = set()
        self.steps = 0

    def count(self, name, n=1):
        self.c[name] = self.c.get(name, 0) + n

    def state(self, dg):
        self.states.add(dg)

    def sched(self, dg):
        self.scheds.add(dg)

    def step(self, n=1):
        self.steps += n


# ---------------------------------------------------------------- budgets
class LineBudget:
    """Deterministic per-call step budget using sys.monitoring LINE events."""
    TOOL = 4

    def __init__(self, limit):
        self.limit = limit
        self.n = 0
        self.on = False

    def _cb(self, code, line):
        self.n += 1
        if self.n > self.limit:
            self.n = 0
            raise BudgetExceeded()

    def __enter__(self):
        mon = sys.monitoring
        try:
            mon.use_tool_id(self.TOOL, "verif-budget")
        except ValueError:
            pass
        mon.register_callback(self.TOOL, mon.events.LINE, self._cb)
        mon.set_events(self.TOOL, mon.events.LINE)
        self.n = 0
        self.on = True
        return self

    def __exit__(self, *a):
        mon = sys.monitoring
        mon.set_events(self.TOOL, 0)
        mon.register_callback(self.TOOL, mon.events.LINE, None)
        try:
            mon.free_tool_id(self.TOOL)
        except Exception:
            pass
        self.on = False
        return False


def _alarm(signum, frame):
    raise HarnessTimeout()


def watchdog(seconds):
    """Re-arming wall-clock watchdog (gfapy has bare excepts that may swallow one)."""
    signal.signal(signal.SIGALRM, _alarm)
    signal.setitimer(signal.ITIMER_REAL, seconds, 1.0)


def watchdog_off():
    signal.setitimer(signal.ITIMER_REAL, 0, 0)


def fmt_exc(e):
    return "".join(traceback.format_exception(type(e), e, e.__traceback__))
