"""C11 — segment neighbourhoods match the specification's edge semantics.

The end-typed collections are caches filled at connect time, moved at
placeholder substitution and pruned at disconnect: their correctness is a
property of the history that built them. Workload: documents sweeping the
whole E table ((orientation pair) x (interval kind)^2 = 144 cells, cell = run
index mod 144, plus random ones), L/C/G in all orientation pairs, self-links,
hairpins, parallel edges; scheduled delivery (edge before / between / after its
segments); then the C05 mutation history. Oracle at every settled step:
collections == re-derivation from the current records by sim/model.py.
"""
import gfapy
from .. import gen as G, hist, core, gtext
from ..model import Doc, classify_edge, link_ends, gap_ends
from ..world import World
from ..rng import digest
from .. import observe as ob
from . import c05

PROP = "C11"
RUNS = {"quick": 4000, "thorough": 200000}
WALL = {"quick": 280, "thorough": 3500}
RULE = ("one run = document containing the E cell (run index mod 144) + scheduled delivery + C05 history; "
        "collections of every segment compared with the model at every settled step; distinct = distinct "
        "(segment neighbourhood digest) values")
PROBES = ["cell_checked", "edge_before_segments", "after_rename", "after_removal", "whole_whole_either",
          "self_edge", "gap_checked", "link_checked", "containment_checked", "derived_queries", "flip_ref",
          "derived_while_unsettled", "edge_reshaped", "other_end_hairpin"]
KINDS = G.INTERVAL_KINDS
CELLS = [(o1, o2, k1, k2) for o1 in "+-" for o2 in "+-" for k1 in KINDS for k2 in KINDS]


def cell_line(rng, cell, segs, seglen, name):
    o1, o2, k1, k2 = cell
    a = rng.choice(segs)
    b = rng.choice(segs)
    b1, e1 = G.interval(rng, k1, seglen[a])
    b2, e2 = G.interval(rng, k2, seglen[b])
    return "\t".join(["E", name, a + o1, b + o2, G.pos_str(b1, seglen[a]), G.pos_str(e1, seglen[a]),
                      G.pos_str(b2, seglen[b]), G.pos_str(e2, seglen[b]), "*"])


def gen(streams, tier, i, over=None):
    cfg = streams.get("config")
    scn = None
    dr = streams.get("document")
    # build our own c05-like scenario but with a document that contains the cell
    k = G.swarm_knobs(cfg)
    version = cfg.choice(["gfa2", "gfa2", "gfa1"])
    k.update({"max_seg": cfg.choice([2, 3, 4]), "max_edge": cfg.choice([4, 8]), "max_link": cfg.choice([4, 8]),
              "max_cont": 3, "max_gap": 3, "etypes": ["any", "dovetail", "cont", "internal"], "p_self": cfg.choice([0.1, 0.4]),
              "self_cont": cfg.random() < 0.5})
    if over:
        k.update(over)
    doc = G.gen_doc(dr, k, version)
    lines = list(doc["lines"])
    cell = None
    if version == "gfa2":
        cell = CELLS[i % len(CELLS)]
        lines.append(cell_line(dr, cell, doc["segs"], doc["seglen"], "cellE"))
    sr = streams.get("schedule")
    order, mode = hist.schedule(sr, lines)
    vlevel = cfg.choice([0, 1, 1, 2, 3])
    ops = [{"op": "new", "vlevel": vlevel, "version": cfg.choice([None, version])}]
    for ln in order:
        ops.append({"op": "add", "line": ln, "as": "str"})
    ops.append({"op": "flush"})
    # mutation history from the C05 generator logic, re-using its model-guided choice
    m = Doc(version, order)
    hr = streams.get("history")
    removed = []
    for _ in range(hr.randint(0, 8)):
        ns = m.namespace()
        names = sorted(ns)
        r = hr.random()
        anon = [x for x in m.recs if x.rt in ("L", "C", "E", "G", "F") and (m.name_of(x) is None or x.rt in ("L", "C"))]
        if r < 0.12 and anon:
            rec = hr.choice(anon)
            ops.append({"op": "rm", "text": rec.render(), "how": hr.choice(["rm_obj", "disconnect"])})
            for x in m.remove([rec]):
                removed.append(x.render())
        elif r < 0.3 and names:
            nm = hr.choice(names)
            rec = ns[nm][0]
            if rec.rt in ("L", "C"):
                continue
            ops.append({"op": "rm", "id": nm, "how": hr.choice(["rm", "disconnect"])})
            for x in m.remove([rec]):
                removed.append(x.render())
        elif r < 0.55 and names:
            nm = hr.choice(names)
            if ns[nm][0].rt in ("L", "C"):
                continue
            sh = hist.Shadow(version, m.render())
            sh.reserved = set(m.all_mentions())
            new = sh.fresh(hr)
            m.rename(nm, new)
            ops.append({"op": "rename", "id": nm, "new": new})
        elif r < 0.6 and version == "gfa2" and any(ns[x][0].rt in ("E", "G") for x in names):
            # the orientation of a reference of a connected edge / gap edited in place (refused, or the line is
            # re-filed: either way the collections follow the text)
            nm = hr.choice([x for x in names if ns[x][0].rt in ("E", "G")])
            ops.append({"op": "flip_ref", "id": nm, "field": hr.choice(["sid1", "sid2"]), "how": hr.choice(["invert", "set"])})
        elif r < 0.66 and version == "gfa2" and any(ns[x][0].rt == "E" for x in names):
            # an edge is asked what it is, taken out of the Gfa, given other positions / orientations (so that it
            # becomes an edge of another kind or of another end) and added again, the same object
            nm = hr.choice([x for x in names if ns[x][0].rt == "E"])
            rec = ns[nm][0]
            a, b = rec.pos[1][:-1], rec.pos[2][:-1]
            la, lb = m.seglen(a), m.seglen(b)
            if la is None or lb is None or m.by_name(a) is None or m.by_name(b) is None:
                continue
            o1, o2, k1, k2 = hr.choice(CELLS)
            if hr.random() < 0.3:
                a, b = b, a
                la, lb = lb, la
            b1, e1 = G.interval(hr, k1, la)
            b2, e2 = G.interval(hr, k2, lb)
            newline = "\t".join(["E", nm, a + o1, b + o2, G.pos_str(b1, la), G.pos_str(e1, la), G.pos_str(b2, lb),
                                 G.pos_str(e2, lb), rec.pos[7]] + rec.render().split("\t")[9:])
            mm = m.copy()
            mm.remove([mm.by_name(nm)])
            if mm.add_text(newline) != "ok":
                continue
            for x in m.remove([rec]):
                removed.append(x.render())
            m.add_text(newline)
            ops.append({"op": "reshape_edge", "id": nm, "line": newline})
        elif r < 0.7 and removed:
            t = hr.choice(removed)
            if m.copy().add_text(t) in ("ok", "merged"):
                m.add_text(t)
                ops.append({"op": "add", "line": t, "as": "str"})
        else:
            sh = hist.Shadow(version, m.render())
            sh.reserved = set(m.all_mentions())
            ln = hist.extra_line(hr, sh, dict(k, p_tags=0.0))
            if ln.split("\t")[0] in ("P", "O", "U"):
                continue
            if m.copy().add_text(ln) in ("ok", "dup-complement"):
                m.add_text(ln)
                ops.append({"op": "add", "line": ln, "as": "str"})
    return {"cfg": {"version": version, "vlevel": vlevel, "order": mode, "cell": list(cell) if cell else None}, "ops": ops}


def model_collections(m):
    """segment name -> collection name -> sorted list of canonical edge keys"""
    v = m.version
    out = {}
    either = []     # (key, seg1, seg2) for whole/whole E lines

    def put(seg, coll, key):
        out.setdefault(seg, {}).setdefault(coll, []).append(key)
    for r in m.recs:
        if r.rt == "S":
            out.setdefault(r.pos[0], {})
    for r in m.recs:
        key = gtext.canon_lines(r.render(), v)[0] if r.rt != "#" else None
        if v == "gfa1":
            if r.rt == "L":
                e1, e2 = link_ends(r.pos[1], r.pos[3])
                put(r.pos[0], "dovetails_" + e1, key)
                put(r.pos[2], "dovetails_" + e2, key)
            elif r.rt == "C":
                put(r.pos[0], "edges_to_contained", key)
                put(r.pos[2], "edges_to_containers", key)
            elif r.rt == "P":
                for s in r.pos[1].split(","):
                    put(s[:-1], "paths", key)
        else:
            if r.rt == "E":
                s1, o1, s2, o2 = r.pos[1][:-1], r.pos[1][-1], r.pos[2][:-1], r.pos[2][-1]
                t, k1, k2 = classify_edge(o1, r.pos[3], r.pos[4], o2, r.pos[5], r.pos[6])
                if k1 == "either":
                    either.append((key, s1, s2))
                else:
                    put(s1, k1, key)
                    put(s2, k2, key)
            elif r.rt == "G":
                s1, o1, s2, o2 = r.pos[1][:-1], r.pos[1][-1], r.pos[2][:-1], r.pos[2][-1]
                e1, e2 = gap_ends(o1, o2)
                put(s1, "gaps_" + e1, key)
                put(s2, "gaps_" + e2, key)
            elif r.rt == "F":
                put(r.pos[0], "fragments", key)
            elif r.rt in ("O", "U"):
                for it in m.item_mentions(r):
                    tgt = m.by_name(it)
                    if tgt is not None and tgt.rt == "S":
                        put(it, "paths" if r.rt == "O" else "sets", key)
    return out, either


def gfapy_collections(g):
    v = g.version
    out = {}
    for s in g.segments:
        d = {}
        for c in ob.SEG_COLLS:
            lst = getattr(s, c)
            if lst:
                d[c] = sorted(ob.canon_key(l, v) for l in lst)
        out[s.name] = d
    return out


def check(w, m, st, n, op):
    g = w.gfa
    want, either = model_collections(m)
    got = gfapy_collections(g)
    # whole/whole E lines: one side container, the other contained (the specification does not pick)
    for key, s1, s2 in either:
        st.count("probe.whole_whole_either")
        a = got.get(s1, {})
        b = got.get(s2, {})
        if key in a.get("edges_to_contained", []) and key in b.get("edges_to_containers", []):
            want.setdefault(s1, {}).setdefault("edges_to_contained", []).append(key)
            want.setdefault(s2, {}).setdefault("edges_to_containers", []).append(key)
        else:
            want.setdefault(s1, {}).setdefault("edges_to_containers", []).append(key)
            want.setdefault(s2, {}).setdefault("edges_to_contained", []).append(key)
    for s in want:
        for c in want[s]:
            want[s][c].sort()
    st.count("oracle.collections_equal_model")
    st.state(digest(got))
    for s in sorted(set(want) | set(got)):
        ws, gs = want.get(s, {}), got.get(s, {})
        for c in ob.SEG_COLLS:
            if ws.get(c, []) != gs.get(c, []):
                raise core.Violation("collection-differs",
                                     "after step %d %r: segment %s %s: gfapy %r, specification %r" %
                                     (n, op.get("line", op), s, c, gs.get(c, []), ws.get(c, [])),
                                     coll=c, op=op["op"])
    derived(g, st, n)
    v = g.version
    # gfa-level collections
    nd = sorted(ob.canon_key(l, v) for l in g.dovetails if not l.virtual)
    wd = sorted(k for s in want for c in ("dovetails_L", "dovetails_R") for k in want[s].get(c, []))
    # every dovetail is filed twice (once per side)
    if sorted(nd + nd) != wd:
        raise core.Violation("gfa-dovetails", "gfa.dovetails=%r, specification %r" % (nd, sorted(set(wd))), coll="gfa.dovetails")
    nc = sorted(ob.canon_key(l, v) for l in g.containments)
    wc = sorted(k for s in want for k in want[s].get("edges_to_contained", []))
    if nc != wc:
        raise core.Violation("gfa-containments", "gfa.containments=%r, specification %r" % (nc, wc), coll="gfa.containments")


def derived(g, st, n):
    """neighbours, containers, contained, other-end answers follow from the collections (whatever the document:
    also while lines are still missing and placeholders stand for them)"""
    st.count("probe.derived_queries")
    v = g.version
    for s in g.segments:
        for end in ("L", "R"):
            dv = getattr(s, "dovetails_" + end)
            nb = s.neighbours_of_end(end)
            exp = []
            seen = set()
            for l in dv:
                if id(l) in seen:
                    continue
                seen.add(id(l))
                o = core.call(l.other, s)
                if not o.ok:
                    raise core.Violation("other-raised", "%r.other(%s) raised %s" % (ob.line_text(l), s.name, o.excname),
                                         coll="dovetails_" + end)
                exp.append(o.value.name)
                # the edge must report this end of this segment as one of its two ends
                ends = (str(l.from_end), str(l.to_end))
                if "%s%s" % (s.name, end) not in ends:
                    raise core.Violation("edge-end-mismatch",
                                         "after step %d: %r is filed in %s.dovetails_%s but its ends are %r" %
                                         (n, ob.line_text(l), s.name, end, ends), coll="dovetails_" + end)
                oe = core.call(l.other_end, gfapy.SegmentEnd(s, end))
                if oe.ok:
                    other_seg = oe.value.segment
                    oname = other_seg if isinstance(other_seg, str) else other_seg.name
                    if oname != o.value.name and l.from_segment is not l.to_segment:
                        raise core.Violation("other-end-mismatch", "%r other_end/other disagree" % ob.line_text(l),
                                             coll="dovetails_" + end)
                    # the edge joins its two ends: the other end of the one asked about is the other one of the
                    # pair (the same end again when an end is joined with itself), and the line is filed there
                    here = "%s%s" % (s.name, end)
                    exp_other = ends[1] if ends[0] == here else ends[0]
                    st.count("probe.other_end_hairpin" if ends[0] == ends[1] else "oracle.other_end")
                    if str(oe.value) != exp_other:
                        raise core.Violation("other-end-mismatch", "after step %d: %r joins %r; other_end(%s) = %s" %
                                             (n, ob.line_text(l), ends, here, str(oe.value)), coll="dovetails_" + end)
                    if not isinstance(other_seg, str) and \
                            not any(x is l for x in getattr(other_seg, "dovetails_" + oe.value.end_type)):
                        raise core.Violation("other-end-mismatch", "after step %d: other_end(%s) of %r = %s, where the "
                                             "line is not filed" % (n, here, ob.line_text(l), str(oe.value)),
                                             coll="dovetails_" + end)
                if not l.is_dovetail() or l.is_containment() or l.is_internal():
                    raise core.Violation("type-mismatch", "%r is filed as dovetail but reports another type" %
                                         ob.line_text(l), coll="dovetails_" + end)
            if [x.name for x in nb] != exp:
                raise core.Violation("neighbours-mismatch", "segment %s neighbours_%s=%r, dovetails give %r" %
                                     (s.name, end, [x.name for x in nb], exp), coll="dovetails_" + end)
        cont = [l.to_segment.name for l in s.edges_to_contained]
        if sorted(set(x.name for x in s.contained)) != sorted(set(cont)):
            raise core.Violation("contained-mismatch", "segment %s contained=%r, edges give %r" %
                                 (s.name, [x.name for x in s.contained], cont), coll="edges_to_contained")
        cner = [l.from_segment.name for l in s.edges_to_containers]
        if sorted(set(x.name for x in s.containers)) != sorted(set(cner)):
            raise core.Violation("containers-mismatch", "segment %s containers=%r, edges give %r" %
                                 (s.name, [x.name for x in s.containers], cner), coll="edges_to_containers")
        for l in s.edges_to_contained + s.edges_to_containers:
            if not l.is_containment():
                raise core.Violation("type-mismatch", "%r filed as containment reports another type" % ob.line_text(l),
                                     coll="containment")
        for l in s.internals:
            if not l.is_internal():
                raise core.Violation("type-mismatch", "%r filed as internal reports another type" % ob.line_text(l),
                                     coll="internals")


def run(scn, st):
    w = World(st)
    version = scn["cfg"]["version"]
    m = None
    cell_seen = False
    for n, op in enumerate(scn["ops"]):
        if op["op"] == "new":
            w.apply(op)
            m = Doc(version)
            continue
        if w.gfa is None:
            continue
        if m.unspecified:
            return
        if op["op"] == "flip_ref":
            l = w.gfa.line(op["id"])
            rec = m.by_name(op["id"])
            if l is None or rec is None or rec.rt not in ("E", "G"):
                continue
            st.count("probe.flip_ref")
            ol = core.call(l.get, op["field"])
            if not ol.ok or not isinstance(ol.value, gfapy.OrientedLine):
                continue
            if op["how"] == "invert":
                r_ = core.call(ol.value.invert)
            else:
                def _set():
                    ol.value.orient = "-" if ol.value.orient == "+" else "+"
                r_ = core.call(_set)
            if r_.ok:
                # accepted: the document now says the other orientation
                j = 1 if op["field"] == "sid1" else 2
                rec.pos[j] = rec.pos[j][:-1] + ("-" if rec.pos[j][-1] == "+" else "+")
                st.count("probe.flip_ref_accepted")
            if m.settled() and w.gfa.version == version:
                check(w, m, st, n, op)
            continue
        exp = c05.model_apply(m, op, st if op["op"] == "reshape_edge" else core.Stats())
        if exp == "skip":
            continue
        out = w.apply(op)
        if m.unspecified:
            return
        if exp == "ok" and not out.ok:
            return      # C05's business
        if op["op"] == "rename":
            st.count("probe.after_rename")
        if op["op"] == "rm":
            st.count("probe.after_removal")
        if op["op"] == "add":
            f = op["line"].split("\t")
            if f[0] in ("E", "L", "C", "G") and m.dangling():
                st.count("probe.edge_before_segments")
            if f[0] == "G":
                st.count("probe.gap_checked")
            if f[0] == "L":
                st.count("probe.link_checked")
            if f[0] == "C":
                st.count("probe.containment_checked")
            if f[0] in ("E", "L") and len(f) > 3 and f[2].rstrip("+-") == f[3].rstrip("+-"):
                st.count("probe.self_edge")
        if m.settled() and w.gfa.version == version:
            if scn["cfg"].get("cell") and m.by_name("cellE") is not None:
                st.count("probe.cell_checked")
                st.sched(digest(scn["cfg"]["cell"]))
            check(w, m, st, n, op)
        elif w.gfa.version == version:
            st.count("probe.derived_while_unsettled")
            derived(w.gfa, st, n)


from .c02 import simplify  # noqa: E402,F401
