"""C06 — GFA1 <-> GFA2 conversion preserves the graph and emits valid output.

Phrased as a format-changing restart: the graph is built under a scheduled
delivery (which complement form of a link is stored, how a path traverses it
and which edge identifiers unused_name() hands out depend on arrival order),
checkpointed in the *other* version (to_gfa2_s / to_gfa2()+str / per line),
the Gfa is dropped, and a new one is restarted from the text at vlevel 3; then
back again. The deciding ingredient is the differential oracle: the model's own
coordinate arithmetic (sim/model.py helpers below), not the schedule.
"""
import gfapy
from .. import gen as G, hist, core, gtext
from ..model import Doc, classify_edge, interval_kind
from ..world import World
from ..rng import digest
from .. import observe as ob
from ..gtext import inv, cigar_complement, cigar_reflen, cigar_qlen

PROP = "C06"
RUNS = {"quick": 20000, "thorough": 700000}
WALL = {"quick": 280, "thorough": 3500}
RULE = ("one run = GFA1 (with lengths and specified overlaps) or GFA2 document, scheduled delivery, "
        "conversion, restart at vlevel 3, conversion back; distinct = distinct (document digest, how) pairs")
PROBES = ["dollar_in_view", "gfa1_to_gfa2", "gfa2_to_gfa1", "asym_cigar", "containment_offset",
          "path_reversed_link", "circular_path", "single_segment_path", "named_edge", "unnamed_edge",
          "internal_edge_dropped", "line_conversion_refused", "there_and_back", "self_link",
          "gfa2_only_content_refused", "gfa1_only_overlap_refused"]


def ps(p, length):
    return "%d$" % p if p == length else str(p)


# ------------------------------------------------------------------ model conversions
def l_to_e(pos, la, lb):
    a, oa, b, ob, ov = pos
    r, q = cigar_reflen(ov), cigar_qlen(ov)
    if oa == "+":
        b1, e1 = la - r, la
    else:
        b1, e1 = 0, r
    if ob == "+":
        b2, e2 = 0, q
    else:
        b2, e2 = lb - q, lb
    return [a + oa, b + ob, ps(b1, la), ps(e1, la), ps(b2, lb), ps(e2, lb), ov]


def c_to_e(pos, la, lb):
    a, oa, b, ob, p, ov = pos
    r = cigar_reflen(ov)
    p = int(p)
    return [a + oa, b + ob, ps(p, la), ps(p + r, la), ps(0, lb), ps(lb, lb), ov]


def role(b, e, o):
    k = interval_kind(b, e)
    if k == "whole":
        return "contained"
    if k == "pfx":
        return "pfx" if o == "+" else "sfx"
    if k == "sfx":
        return "sfx" if o == "+" else "pfx"
    return "other"


def e_to_gfa1(pos):
    """E positional fields -> ('L'|'C', fields) or None (internal / no counterpart)"""
    eid, s1, s2, b1, e1, b2, e2, aln = pos
    n1, o1, n2, o2 = s1[:-1], s1[-1], s2[:-1], s2[-1]
    t, _k1, _k2 = classify_edge(o1, b1, e1, o2, b2, e2)
    if t == "internal" or "," in aln:
        return None
    r1, r2 = role(b1, e1, o1), role(b2, e2, o2)
    if t == "dovetail":
        if r1 == "sfx" and r2 == "pfx":
            return ("L", [n1, o1, n2, o2, aln])
        if r2 == "sfx" and r1 == "pfx":
            # sid2 is the 'from' side: reference and query change roles, the reading direction does not
            return ("L", [n2, o2, n1, o1, gtext.cigar_swap(aln)])
        return None
    # containment: the wholly aligned side is the contained ('to') one
    if r2 == "contained":
        return ("C", [n1, o1, n2, o2, b1.rstrip("$"), aln])
    if r1 == "contained":
        return ("C", [n2, o2, n1, o1, b2.rstrip("$"), gtext.cigar_swap(aln)])
    return None


def strip_tags(line, version, drop=("ID", "LN")):
    return gtext.canon_lines(line, version, drop_tags=drop)


def gen(streams, tier, i):
    cfg = streams.get("config")
    k = G.swarm_knobs(cfg)
    src = cfg.choice(["gfa1", "gfa1", "gfa2"])
    k.update({"lens": True, "overlap": cfg.choice(["asym", "match", "asym"]), "p_seq": cfg.choice([0.5, 1.0]),
              "max_seg": cfg.choice([2, 3, 4]), "p_link_id": cfg.choice([0.0, 0.4]), "max_hdr": cfg.choice([0, 1]),
              "p_tags": cfg.choice([0.0, 0.4]), "max_custom": cfg.choice([0, 1]), "self_cont": False,
              "etypes": ["dovetail", "dovetail", "cont", "internal"], "p_eid": cfg.choice([0.3, 0.9]),
              "names": cfg.choice(["alpha", "mixed", "int"]), "nest": False, "max_ogroup": 0, "max_ugroup": cfg.choice([0, 1])})
    if k["overlap"] == "asym":
        k["overlap"] = "asym"
    if src == "gfa2":
        k["p_self"] = 0.0
    view_only = False
    if src == "gfa1" and cfg.random() < 0.15:
        # an arm for the GFA2 *view* only: overlaps may cover a whole segment there (as a document this is
        # ambiguous between dovetail and containment, so the conversion round trip is not judged)
        k["lens"] = "full"
        view_only = True
    doc = G.gen_doc(streams.get("document"), k, src)
    lines = doc["lines"]
    if src == "gfa2":
        # GFA1 (as gfapy reads it) identifies a link with its complement and refuses equal links: keep at
        # most one E line per pair of segments, so that every edge has its own counterpart
        seen = set()
        kept = []
        for ln in lines:
            f = ln.split("\t")
            if f[0] == "E":
                key = frozenset([f[2][:-1], f[3][:-1]])
                if key in seen:
                    continue
                seen.add(key)
            kept.append(ln)
        ids = set(ln.split("\t")[1] for ln in kept if ln.split("\t")[0] in "SEGOU")
        lines = [ln for ln in kept if not (ln.split("\t")[0] in ("O", "U") and
                                          any(x.rstrip("+-") not in ids for x in ln.split("\t")[2].split(" ")))]
    gfa2only = False
    if cfg.random() < 0.15:
        # a segment of length 0
        lines = lines + (["S\tzl0\t0\t*"] if src == "gfa2" else ["S\tzl0\t*\tLN:i:0"])
    if src == "gfa2" and cfg.random() < 0.12:
        # an identifier or a sequence that GFA2 allows and GFA1 cannot write: conversion refuses or drops,
        # it never writes it into GFA1 text
        segs = [ln.split("\t")[1] for ln in lines if ln.startswith("S\t")]
        if segs:
            old = cfg.choice(segs)
            if cfg.random() < 0.6:
                new = cfg.choice(["*A", "=B", "*", "=x1"]) if False else cfg.choice(["*A", "=B", "=x1"])
                lines = [_rename_token(ln, old, new) for ln in lines]
            else:
                out = []
                for ln in lines:
                    f = ln.split("\t")
                    if f[0] == "S" and f[1] == old and f[3] != "*":
                        f[3] = "-" + f[3][1:]
                    out.append("\t".join(f))
                lines = out
            gfa2only = True
    nocp = False
    vlevel = cfg.choice([1, 2, 3])
    if src == "gfa1" and not view_only and cfg.random() < 0.1:
        # an overlap with operations that only GFA1 has (= X, same lengths): the link or containment has no
        # GFA2 counterpart; conversion refuses it or drops it, it never writes it into an E line
        cand = [i_ for i_, ln in enumerate(lines) if ln.split("\t")[0] in ("L", "C") and "M" in ln.split("\t")[6 if ln[0] == "C" else 5]]
        if cand:
            i_ = cfg.choice(cand)
            f = lines[i_].split("\t")
            c = 6 if f[0] == "C" else 5
            if cfg.random() < 0.6:
                f[c] = f[c].replace("M", cfg.choice(["=", "X"]), 1)
            else:
                # ... or an ID tag (any printable string in GFA1) that is no GFA2 identifier
                f = [x for x in f if not x.startswith("ID:")] + ["ID:Z:" + cfg.choice(["my link", "a b", "x y+"])]
            lines = lines[:i_] + ["\t".join(f)] + lines[i_ + 1:]
            nocp = True
            vlevel = cfg.choice([0, 1, 2, 3])
    sr = streams.get("schedule")
    order, mode = hist.schedule(sr, lines)
    how = cfg.choice(["to_s", "to_s", "to_obj", "per_line", "per_line_rev"])
    return {"cfg": {"version": src, "order": mode, "how": how, "vlevel": vlevel, "view_only": view_only,
                    "gfa2only": gfa2only, "no_counterpart": nocp},
            "lines": order, "ops": [{"op": "convert"}]}


def _rename_token(line, old, new):
    f = line.split("\t")
    out = []
    for i, x in enumerate(f):
        if i == 0:
            out.append(x)
            continue
        parts = x.split(" ")
        parts = [(new + p[len(old):]) if (p == old or p in (old + "+", old + "-")) else p for p in parts]
        out.append(" ".join(parts))
    return "\t".join(out)


def convert_text(g, target, how):
    if how == "to_s":
        return core.call(getattr(g, "to_%s_s" % target))
    if how == "to_obj":
        def f():
            return str(getattr(g, "to_%s" % target)())
        return core.call(f)

    def f2():
        out = []
        ls = list(g.lines)
        if how == "per_line_rev":
            # the lines converted one by one in the opposite order (paths and groups before the edges they go
            # through); every line is converted twice, the second answer must be the first
            ls.reverse()
        for l in ls:
            s = getattr(l, "to_%s_s" % target)()
            if how == "per_line_rev":
                s2 = getattr(l, "to_%s_s" % target)()
                if s2 != s:
                    raise core.Violation("conversion-not-repeatable", "%r converted twice to %s: %r then %r" %
                                         (str(l), target, s, s2), direction=target)
            if s:
                out.append(s)
        return "\n".join(out)
    return core.call(f2)


def run(scn, st):
    lines = scn["lines"]
    cfg = scn["cfg"]
    src = cfg["version"]
    m = Doc(src)
    for ln in lines:
        if m.add_text(ln) not in ("ok", "merged", "dup-complement"):
            return
    if not m.settled():
        return
    st.step()
    w = World(st)
    o = w.construct("incremental", lines, vlevel=cfg["vlevel"])
    if not o.ok:
        return       # C01/C03's business
    g = o.value
    st.sched(digest([digest(sorted(lines)), lines == sorted(lines), cfg["how"]]))
    if cfg.get("no_counterpart"):
        st.count("probe.gfa1_only_overlap_refused")
        st.count("oracle.no_counterpart")
        for how in ("to_s", "to_obj", "per_line"):
            t = convert_text(g, "gfa2", how)
            if not t.ok:
                if t.kind != "gfapy":
                    raise core.Violation("conversion-foreign-exception", "GFA1->GFA2 (%s) of a document with a GFA1-only "
                                         "overlap raised %s" % (how, t.excname), exc=t.excname, frame=t.frame)
                continue
            r = core.call(gfapy.Gfa, t.value, vlevel=3, version="gfa2")
            if not r.ok:
                raise core.Violation("no-counterpart-mistranslated",
                                     "GFA1->GFA2 (%s, level %d): an overlap with GFA1-only operations was written into "
                                     "GFA2 text that does not parse at level 3 (%s): %r" %
                                     (how, cfg["vlevel"], r.excname, [x for x in t.value.split("\n") if x[:1] == "E"][:3]),
                                     how=how)
        return
    if src == "gfa1":
        run_1_to_2(m, g, cfg, st)
    else:
        run_2_to_1(m, g, cfg, st)


def seglens(m):
    return dict((r.pos[0], m.seglen(r.pos[0])) for r in m.recs if r.rt == "S")


def view_oracle(m, g, L, st):
    """the GFA2 view of every connected L / C line: sid1 sid2 beg1 end1 beg2 end2 alignment"""
    for l in g.edges:
        if l.virtual or l.record_type not in ("L", "C"):
            continue
        pos = ob.line_text(l).split("\t")
        pos = pos[1:6] if l.record_type == "L" else pos[1:7]
        want = l_to_e(pos, L[pos[0]], L[pos[2]]) if l.record_type == "L" else c_to_e(pos, L[pos[0]], L[pos[2]])
        o = core.call(lambda: [str(l.sid1), str(l.sid2), str(l.beg1), str(l.end1), str(l.beg2), str(l.end2), str(l.alignment)])
        st.count("oracle.gfa2_view")
        if not o.ok:
            raise core.Violation("view-raised", "GFA2 view of %r raised %s: %s" % (ob.line_text(l), o.excname, str(o.exc)[:200]),
                                 exc=o.excname, frame=o.frame)
        if o.value != want:
            names = ["sid1", "sid2", "beg1", "end1", "beg2", "end2", "alignment"]
            bad = [n for n, a, b in zip(names, o.value, want) if a != b]
            raise core.Violation("view-differs", "GFA2 view of %r: %r, expected %r" % (ob.line_text(l), o.value, want),
                                 field=bad[0], rt=l.record_type)
        if any(x.endswith("$") for x in want):
            st.count("probe.dollar_in_view")


def run_1_to_2(m, g, cfg, st):
    st.count("probe.gfa1_to_gfa2")
    L = seglens(m)
    if any(v is None for v in L.values()):
        return
    view_oracle(m, g, L, st)
    if cfg.get("view_only"):
        return
    t = convert_text(g, "gfa2", cfg["how"])
    st.count("oracle.conversion_succeeds")
    if not t.ok:
        raise core.Violation("conversion-raised", "GFA1->GFA2 (%s) raised %s: %s" % (cfg["how"], t.excname, str(t.exc)[:300]),
                             direction="1to2", exc=t.excname, frame=t.frame)
    text2 = t.value
    r = core.call(gfapy.Gfa, text2, vlevel=3, version="gfa2")
    st.count("oracle.valid_at_vlevel3")
    if not r.ok:
        raise core.Violation("converted-invalid", "the GFA2 output does not parse at vlevel 3: %s: %s\n%s" %
                             (r.excname, str(r.exc)[:300], text2[:400]), direction="1to2", exc=r.excname, frame=r.frame)
    g2 = r.value
    # ---- compare with the model's conversion
    got = [gtext.tokenize(x, "gfa2") for x in text2.split("\n") if x]
    want_e = []
    for rec in m.recs:
        if rec.rt == "L":
            f = l_to_e(rec.pos, L[rec.pos[0]], L[rec.pos[2]])
            if any(c in rec.pos[4] for c in "ID"):
                st.count("probe.asym_cigar")
            if rec.pos[1] == "-" and cigar_reflen(rec.pos[4]) == L[rec.pos[0]]:
                st.count("probe.dollar_on_minus_side")
            if rec.pos[0] == rec.pos[2]:
                st.count("probe.self_link")
        elif rec.rt == "C":
            f = c_to_e(rec.pos, L[rec.pos[0]], L[rec.pos[2]])
            if int(rec.pos[4]) > 0:
                st.count("probe.containment_offset")
        else:
            continue
        idt = rec.tag("ID")
        st.count("probe.named_edge" if idt else "probe.unnamed_edge")
        tags = sorted("%s:%s:%s" % (n, tt, gtext.canon_tag_value(tt, v)) for n, tt, v in rec.tags if n != "ID")
        want_e.append((idt[1] if idt else None, tuple(f), tuple(tags)))
    got_e = []
    for pl in got:
        if pl.rt == "E":
            tags = sorted("%s:%s:%s" % (n, tt, gtext.canon_tag_value(tt, v)) for n, tt, v in pl.tags)
            got_e.append((pl.pos[0], tuple(pl.pos[1:]), tuple(tags)))
    st.count("oracle.edges_equal_model")
    ge = sorted((f, tg) for _i, f, tg in got_e)
    we = sorted((f, tg) for _i, f, tg in want_e)
    if ge != we:
        extra = [x for x in ge if x not in we]
        missing = [x for x in we if x not in ge]
        raise core.Violation("edge-conversion-differs",
                             "GFA1->GFA2: E lines %r, expected %r" % (extra[:2], missing[:2]), direction="1to2",
                             field=_first_diff(extra, missing))
    for idw, f, tg in want_e:
        if idw is not None and not any(i == idw and ff == f for i, ff, _t in got_e):
            raise core.Violation("edge-id-lost", "edge %r should keep its ID %r" % (f, idw), direction="1to2")
    ids = [i for i, _f, _t in got_e if i != "*"]
    if len(set(ids)) != len(ids):
        raise core.Violation("edge-ids-clash", "edge identifiers not unique: %r" % ids, direction="1to2")
    # segments
    for rec in m.recs:
        if rec.rt == "S":
            seq = rec.pos[1]
            tags = sorted("%s:%s:%s" % (n, tt, gtext.canon_tag_value(tt, v)) for n, tt, v in rec.tags if n != "LN")
            hit = [pl for pl in got if pl.rt == "S" and pl.pos[0] == rec.pos[0]]
            if len(hit) != 1 or hit[0].pos[1] != str(L[rec.pos[0]]) or hit[0].pos[2] != seq or \
                    sorted("%s:%s:%s" % (n, tt, gtext.canon_tag_value(tt, v)) for n, tt, v in hit[0].tags) != tags:
                raise core.Violation("segment-conversion-differs", "segment %r converted to %r" %
                                     (rec.render(), [h.render() for h in hit]), direction="1to2")
    # paths: same oriented segments through the same edges
    for rec in m.recs:
        if rec.rt == "P":
            segs = [(x[:-1], x[-1]) for x in rec.pos[1].split(",")]
            if len(segs) == 1:
                st.count("probe.single_segment_path")
            lk = m.path_links(rec)
            if len(lk) == len(segs) and len(segs) > 1:
                st.count("probe.circular_path")
            p2 = g2.line(rec.pos[0])
            st.count("oracle.paths_equal_model")
            if p2 is None or p2.record_type != "O":
                raise core.Violation("path-lost", "path %s has no O counterpart" % rec.pos[0], direction="1to2")
            cp = core.call(lambda: p2.captured_path)
            if not cp.ok:
                raise core.Violation("path-unresolvable", "converted path %s: captured_path raised %s: %s (%r)" %
                                     (rec.pos[0], cp.excname, str(cp.exc)[:200], ob.line_text(p2)), direction="1to2",
                                     exc=cp.excname)
            cs = [(x.name, x.orient) for x in cp.value[0::2]]
            want_segs = segs + ([segs[0]] if (len(lk) == len(segs) and len(segs) > 1) else [])
            if cs != want_segs:
                raise core.Violation("path-segments-differ", "path %s visits %r, expected %r" % (rec.pos[0], cs, want_segs),
                                     direction="1to2")
            for step, ol in zip(lk, cp.value[1::2]):
                if step[0] == step[2]:
                    continue      # self-links / hairpins: both readings of the traversal coincide
                ef = tuple(ob.line_text(ol.line).split("\t")[2:9])
                cands = m.find_links(*step)
                ok = False
                for lrec, direct in cands:
                    exp = tuple(l_to_e(lrec.pos, L[lrec.pos[0]], L[lrec.pos[2]]))
                    if ef == exp and (ol.orient == "+") == direct:
                        ok = True
                    if not direct:
                        st.count("probe.path_reversed_link")
                    if tuple(gtext.link_forms(lrec.pos)[0]) == tuple(gtext.link_forms(lrec.pos)[1]):
                        ok = ok or ef == exp
                if not ok:
                    raise core.Violation("path-edge-differs", "path %s step %r goes through %r%s" %
                                         (rec.pos[0], step, ef, ol.orient), direction="1to2")
    # ---- there and back
    back = convert_text(g2, "gfa1", cfg["how"])
    st.count("probe.there_and_back")
    st.count("oracle.there_and_back")
    if not back.ok:
        raise core.Violation("conversion-raised", "GFA1->GFA2->GFA1 raised %s: %s" % (back.excname, str(back.exc)[:300]),
                             direction="back", exc=back.excname, frame=back.frame)
    r1 = core.call(gfapy.Gfa, back.value, vlevel=3, version="gfa1")
    if not r1.ok:
        raise core.Violation("converted-invalid", "the GFA1 output of the way back does not parse at vlevel 3: %s: %s" %
                             (r1.excname, str(r1.exc)[:300]), direction="back", exc=r1.excname, frame=r1.frame)
    star = set(r.pos[0] for r in m.recs if r.rt == "P" and r.pos[2] == "*")

    def norm_star(x):
        # unspecified path overlaps come back specified (from the links): an allowed refinement
        f = x.split("\t")
        if f[0] == "P" and f[1] in star:
            f[3] = "*"
        return "\t".join(f)
    a = sorted(norm_star(norm_circular(x)) for ln in back.value.split("\n") if ln for x in strip_tags(ln, "gfa1"))
    b = sorted(norm_star(norm_circular(x)) for ln in m.render() for x in strip_tags(ln, "gfa1"))
    # a header VN is rewritten to the target version and back: same text
    st.state(digest(a))
    if a != b:
        extra = [x for x in a if x not in b]
        missing = [x for x in b if x not in a]
        raise core.Violation("there-and-back-differs", "GFA1->GFA2->GFA1: got %r, started from %r" %
                             (extra[:3], missing[:3]), direction="back",
                             rts=sorted(set(x.split("\t")[0] for x in extra + missing)))


def norm_circular(line):
    """a circular GFA1 path (n segments, n overlaps) and its closed linear spelling (first segment repeated
    at the end, n overlaps) describe the same walk; the GFA2 form can only express the latter"""
    f = line.split("\t")
    if f[0] == "P" and len(f) > 3:
        segs, ovs = f[2].split(","), f[3].split(",")
        if len(segs) > 1 and len(ovs) == len(segs) and ovs != ["*"]:
            segs = segs + [segs[0]]
            f[2] = ",".join(segs)
        names = [x[:-1] for x in segs]
        for i in range(len(names) - 1):
            # a step over a hairpin / self-link: the link equals its own complement as an oriented pair,
            # so the overlap may legitimately be spelled in either complement form
            if names[i] == names[i + 1] and i < len(ovs):
                ovs[i] = min(ovs[i], cigar_complement(ovs[i]))
        f[3] = ",".join(ovs)
        return "\t".join(f)
    return line


def _first_diff(extra, missing):
    if not extra or not missing:
        return "count"
    a, b = extra[0][0], missing[0][0]
    names = ["sid1", "sid2", "beg1", "end1", "beg2", "end2", "alignment"]
    for n, x, y in zip(names, a, b):
        if x != y:
            return n
    return "tags"


def run_2_to_1(m, g, cfg, st):
    st.count("probe.gfa2_to_gfa1")
    t = convert_text(g, "gfa1", "to_s" if cfg["how"] in ("per_line", "per_line_rev") else cfg["how"])
    st.count("oracle.conversion_succeeds")
    if not t.ok and cfg.get("gfa2only") and t.kind == "gfapy":
        st.count("probe.gfa2_only_content_refused")
        return
    if not t.ok:
        raise core.Violation("conversion-raised", "GFA2->GFA1 (%s) raised %s: %s" % (cfg["how"], t.excname, str(t.exc)[:300]),
                             direction="2to1", exc=t.excname, frame=t.frame)
    text1 = t.value
    r = core.call(gfapy.Gfa, text1, vlevel=3, version="gfa1")
    st.count("oracle.valid_at_vlevel3")
    if not r.ok:
        raise core.Violation("converted-invalid", "the GFA1 output does not parse at vlevel 3: %s: %s\n%s" %
                             (r.excname, str(r.exc)[:300], text1[:400]), direction="2to1", exc=r.excname, frame=r.frame)
    want = []
    for rec in m.recs:
        if rec.rt == "S":
            tags = [("LN", "i", rec.pos[1])] + list(rec.tags)
            want.append("\t".join(["S", rec.pos[0], rec.pos[2]] + ["%s:%s:%s" % x for x in tags]))
        elif rec.rt == "E":
            c = e_to_gfa1(rec.pos)
            if c is None:
                st.count("probe.internal_edge_dropped")
                # line conversion must refuse
                l = gfapy.Line(rec.render(), version="gfa2")
                rr = core.call(l.to_gfa1)
                st.count("probe.line_conversion_refused")
                if rr.ok and rr.value is not None and classify_edge(rec.pos[1][-1], rec.pos[3], rec.pos[4], rec.pos[2][-1],
                                                                    rec.pos[5], rec.pos[6])[0] == "internal":
                    raise core.Violation("internal-edge-translated", "internal edge %r converted to %r" %
                                         (rec.render(), ob.line_text(rr.value)), direction="2to1")
                continue
            rt, f = c
            tags = list(rec.tags)
            if rec.pos[0] != "*":
                tags = [("ID", "Z", rec.pos[0])] + tags
            want.append("\t".join([rt] + f + ["%s:%s:%s" % x for x in tags]))
    got = [x for x in text1.split("\n") if x and x.split("\t")[0] in ("S", "L", "C")]
    a = sorted(x for ln in got for x in gtext.canon_lines(ln, "gfa1"))
    b = sorted(x for ln in want for x in gtext.canon_lines(ln, "gfa1"))
    st.count("oracle.edges_equal_model")
    st.state(digest(a))
    if a != b:
        extra = [x for x in a if x not in b]
        missing = [x for x in b if x not in a]
        raise core.Violation("edge-conversion-differs", "GFA2->GFA1: got %r, expected %r" % (extra[:2], missing[:2]),
                             direction="2to1", rts=sorted(set(x.split("\t")[0] for x in extra + missing)))
    others = [x for x in text1.split("\n") if x and x.split("\t")[0] not in ("S", "L", "C", "H", "P") and not x.startswith("#")]
    if others:
        raise core.Violation("no-counterpart-kept", "records without GFA1 counterpart were written: %r" % others[:2],
                             direction="2to1")
