"""C01 — parse -> write round trip (checkpoint / crash / restart through the
simulated storage).

A generated valid document is delivered through a scheduler-chosen entry point
(string, string with final newline, list, file LF / CRLF / no final newline,
file with progress logging and a jumping clock), checkpointed (str or to_file
onto SimDisk), the Gfa object is dropped (crash) and a new one is restarted
from what was written; twice. Fault arm: lost tail (crash after k complete
lines of to_file, only the synced prefix survives).
"""
import gfapy
from .. import gen as G, hist, core, gtext
from ..model import Doc
from ..world import World, install_seams, remove_seams
from ..rng import digest
from .. import observe as ob
from .c03 import canon_u

PROP = "C01"
RUNS = {"quick": 10000, "thorough": 350000}
WALL = {"quick": 280, "thorough": 3500}
RULE = ("one run = one valid document x entry point x terminator x vlevel x version parameter, "
        "written and restarted twice, optionally with a lost tail; distinct = distinct (document digest, "
        "configuration) pairs")
PROBES = ["entry_file_crlf", "entry_file_nonl", "entry_str_nl", "entry_list", "entry_progress",
          "to_file_checkpoint", "lost_tail", "lost_tail_unsettled", "complement_dup_input",
          "noncanonical_spelling", "all_tag_types", "clock_jump"]
STUBS = ["disk: gfapy.gfa.open -> SimDisk (volatile/durable layers)", "clock: gfapy.logger.time -> SimClock"]
ENTRIES = ["str", "str_nl", "list", "file_lf", "file_crlf", "file_nonl", "file_progress"]


def gen(streams, tier, i):
    cfg = streams.get("config")
    k = G.swarm_knobs(cfg)
    k["taglike_seq"] = True
    k["ln_tag"] = True
    k["p_tags"] = cfg.choice([0.5, 0.9])
    k["max_tags"] = cfg.choice([2, 4])
    k["canonical"] = cfg.random() < 0.6
    k["max_custom"] = cfg.choice([0, 1, 2])
    dr = streams.get("document")
    doc = G.gen_doc(dr, k)
    lines = list(doc["lines"])
    version = doc["version"]
    dup = False
    if version == "gfa1" and dr.random() < 0.3:
        links = [ln for ln in lines if ln.startswith("L\t")]
        if links:
            f = dr.choice(links).split("\t")
            a, b = gtext.link_forms(f[1:6])
            lines.append("\t".join(["L"] + list(b)))
            dup = True
    sr = streams.get("schedule")
    if sr.random() < 0.5:
        lines, _ = hist.schedule(sr, lines)
    vlevel = cfg.choice([0, 1, 1, 2, 3])
    vparam = cfg.choice([None, None, version])
    fr = streams.get("faults")
    ops = []
    for _ in range(2 if tier == "quick" else 3):
        lost = None
        if fr.random() < 0.25:
            lost = fr.randint(0, max(0, len(lines)))
        ops.append({"op": "cycle", "entry": sr.choice(ENTRIES), "write": sr.choice(["str", "to_file", "to_file"]),
                    "entry2": sr.choice(ENTRIES), "lost_tail": lost, "clock_jump": fr.choice([0, 0, -3600, 86400])})
    return {"cfg": {"version": version, "vlevel": vlevel, "vparam": vparam, "dup": dup,
                    "canonical": k["canonical"]}, "lines": lines, "ops": ops}


def bad_markers(text):
    return [ln for ln in text.split("\n") if "# INVALID" in ln or "GFAPY_virtual_line" in ln or
            "line_created_by_gfapy" in ln]


def run(scn, st):
    lines = scn["lines"]
    cfg = scn["cfg"]
    version = cfg["version"]
    m = Doc(version)
    for ln in lines:
        if m.add_text(ln) not in ("ok", "merged", "dup-complement"):
            return
    if not m.settled():
        return
    want = canon_u(m.canon())
    if cfg.get("dup"):
        st.count("probe.complement_dup_input")
    if not cfg.get("canonical", True):
        st.count("probe.noncanonical_spelling")
    types = set(t for ln in lines for (_n, t, _v) in gtext.tokenize(ln, version).tags)
    if len(types) >= 6:
        st.count("probe.all_tag_types")
    kw = dict(vlevel=cfg["vlevel"], version=cfg["vparam"])
    ref_abs = None
    for op in scn["ops"]:
        st.step()
        st.count("op.cycle")
        w = World(st)
        e1 = op["entry"]
        st.count("probe.entry_" + e1.replace("file_lf", "file").replace("str", "str") if e1 in
                 ("file_crlf", "file_nonl", "str_nl", "list") else "probe.entry_other")
        if e1 == "file_progress":
            st.count("probe.entry_progress")
            if op.get("clock_jump"):
                w.clock.now += op["clock_jump"]
                st.count("fault.clock_jump")
                st.count("probe.clock_jump")
                st.count("clock.advanced", abs(op["clock_jump"]))
        st.sched(digest([digest(lines), e1, op["write"], op["entry2"], op["lost_tail"], kw]))
        o = w.construct(e1, lines, **kw)
        if not o.ok:
            raise core.Violation("valid-rejected",
                                 "valid %s document rejected through entry %s at vlevel %d (version=%r): %s: %s" %
                                 (version, e1, cfg["vlevel"], cfg["vparam"], o.excname, str(o.exc)[:300]),
                                 entry=e1, exc=o.excname, frame=o.frame)
        g1 = o.value
        # ---- checkpoint
        if op["write"] == "to_file":
            st.count("probe.to_file_checkpoint")
            install_seams(w.disk, w.clock)
            try:
                r = core.call(g1.to_file, "/sim/ck.gfa")
            finally:
                remove_seams()
            if not r.ok:
                raise core.Violation("write-failed", "to_file raised %s: %s" % (r.excname, str(r.exc)[:200]),
                                     exc=r.excname, frame=r.frame)
            text1 = w.disk.read("/sim/ck.gfa")
            if text1.endswith("\n"):
                text1 = text1[:-1]
        else:
            r = core.call(str, g1)
            if not r.ok:
                raise core.Violation("write-failed", "str(gfa) raised %s: %s" % (r.excname, str(r.exc)[:200]),
                                     exc=r.excname, frame=r.frame)
            text1 = r.value
        st.count("oracle.roundtrip_equals_input")
        bm = bad_markers(text1)
        if bm:
            raise core.Violation("flagged", "written document carries a marker: %r" % bm[:2], entry=e1)
        got = canon_u(gtext.canon_doc(text1.split("\n"), version))
        st.state(digest([got, e1, cfg["vlevel"]]))
        if got != want:
            extra = [x for x in got if x not in want or got.count(x) > want.count(x)]
            missing = [x for x in want if x not in got or want.count(x) > got.count(x)]
            raise core.Violation("roundtrip-differs",
                                 "entry %s vlevel %d: written records differ from the input: extra %r missing %r" %
                                 (e1, cfg["vlevel"], extra[:3], missing[:3]), entry=e1,
                                 rts=sorted(set(x.split("\t")[0] for x in extra + missing))[:4])
        a1 = ob.abstract(g1)
        if ref_abs is None:
            ref_abs = a1
        else:
            st.count("oracle.entry_points_agree")
            if a1 != ref_abs:
                raise core.Violation("entry-dependent", "entry %s builds a different graph than the first entry" % e1,
                                     entry=e1)
        del g1                                        # crash: only the written text survives
        # ---- restart (possibly from a lost-tail prefix)
        wl = text1.split("\n") if text1 else []
        if op["lost_tail"] is not None and op["write"] == "to_file":
            st.count("fault.lost_tail")
            st.count("probe.lost_tail")
            kkeep = min(op["lost_tail"], len(wl))
            prefix = wl[:kkeep]
            pm = Doc(version)
            okp = all(pm.add_text(ln) in ("ok", "merged", "dup-complement") for ln in prefix)
            o2 = w.construct(op["entry2"], prefix, vlevel=cfg["vlevel"], version=version)
            if okp and pm.settled():
                if not o2.ok:
                    raise core.Violation("durable-prefix-rejected",
                                         "restart from the %d durable lines raised %s: %s" %
                                         (kkeep, o2.excname, str(o2.exc)[:200]), exc=o2.excname, frame=o2.frame)
                got2 = canon_u(gtext.canon_doc(ob.text_lines(o2.value), version))
                if got2 != canon_u(pm.canon()):
                    raise core.Violation("durable-prefix-differs", "restart from %d durable lines lost or invented records" % kkeep)
            else:
                st.count("probe.lost_tail_unsettled")
                if not o2.ok and o2.kind != "gfapy":
                    pass   # C07's business
            continue
        e2 = op["entry2"]
        o2 = w.construct(e2, wl, vlevel=cfg["vlevel"], version=cfg["vparam"])
        if not o2.ok:
            raise core.Violation("own-output-rejected",
                                 "gfapy cannot read what it wrote (entry %s, vlevel %d): %s: %s" %
                                 (e2, cfg["vlevel"], o2.excname, str(o2.exc)[:300]), entry=e2, exc=o2.excname,
                                 frame=o2.frame)
        r2 = core.call(str, o2.value)
        st.count("oracle.fixed_point")
        if not r2.ok or r2.value != text1:
            t2 = r2.value if r2.ok else "<%s>" % r2.excname
            d = [(a, b) for a, b in zip(text1.split("\n"), t2.split("\n")) if a != b][:2]
            raise core.Violation("not-a-fixed-point",
                                 "write(parse(write(parse(T)))) differs from write(parse(T)) (entry %s): %r" % (e2, d),
                                 entry=e2)
        st.count("oracle.restart_equal")
        a2 = ob.abstract(o2.value)
        if a2 != a1:
            raise core.Violation("restart-differs", "the restarted Gfa differs from the one that was written", entry=e2)


from .c03 import simplify  # noqa: E402,F401
