"""C09 — identifiers are unique; lookup and renaming stay coherent.

Histories of additions and renames of every identified record type to every
kind of identifier (fresh, in use by the same type, in use by another type,
integer-looking), removals and re-additions. Oracles after every step:
registry coherence on the implementation; NotUniqueError exactly when the
model's namespace says the identifier is in use (the two documented merges
excepted); lookup returns the line that carries the identifier; rename rewrites
the identifier everywhere and nothing else; unused_name() is unused.
"""
import gfapy
from .. import gen as G, hist, core, gtext, inv
from ..model import Doc
from ..world import World
from ..rng import digest
from .. import observe as ob
from . import c05

PROP = "C09"
RUNS = {"quick": 8000, "thorough": 250000}
WALL = {"quick": 280, "thorough": 3500}
RULE = ("one run = document + history of adds/renames to fresh and used identifiers + removals; "
        "distinct = distinct (namespace digest, op) pairs")
PROBES = ["virtual_link_named", "dup_same_type", "dup_other_type", "dup_vs_id_tag", "rename_used", "rename_fresh", "group_merge",
          "int_names", "unused_name", "lookup_unused", "complement_link", "mention_clash", "self_mention",
          "refused_fresh", "self_mention_clone"]


def gen(streams, tier, i):
    cfg = streams.get("config")
    k = G.swarm_knobs(cfg)
    k["names"] = cfg.choice(["alpha", "int", "int", "mixed"])
    k["p_link_id"] = cfg.choice([0.0, 0.3, 0.6])
    doc = G.gen_doc(streams.get("document"), k)
    version = doc["version"]
    lines, mode = hist.schedule(streams.get("schedule"), doc["lines"])
    vlevel = cfg.choice([0, 1, 1, 2, 3])
    ops = [{"op": "new", "vlevel": vlevel, "version": cfg.choice([None, version])}]
    for ln in lines:
        ops.append({"op": "add", "line": ln, "as": "str"})
    ops.append({"op": "flush"})
    m = Doc(version, lines)
    hr = streams.get("history")
    n = hr.randint(3, 12 if tier == "quick" else 24)
    removed = []
    for _ in range(n):
        ns = m.namespace()
        names = sorted(ns)
        r = hr.random()
        sh = hist.Shadow(version, m.render())
        sh.reserved = set(m.all_mentions())
        if r < 0.25 and names:
            # add a line whose identifier is in use
            nm = hr.choice(names)
            rt0 = ns[nm][0].rt
            rts = ["S", "P", "Lid", "Cid"] if version == "gfa1" else ["S", "E", "G", "O", "U"]
            rt = hr.choice(rts)
            ln = hist._line_named(hr, sh, rt, nm, [])
            ops.append({"op": "add", "line": ln, "as": hr.choice(["str", "obj"])})
            m.add_text(ln)   # merges when it is a documented merge, else no change
        elif r < 0.40 and len(names) >= 1:
            a = hr.choice(names)
            if ns[a][0].rt in ("L", "C"):
                continue
            if hr.random() < 0.5 and len(names) >= 2:
                b = hr.choice([x for x in names if x != a])
                ops.append({"op": "rename", "id": a, "new": b})
            else:
                b = sh.fresh(hr) if hr.random() < 0.6 else str(hr.randint(1, 60))
                if b in ns or b in m.all_mentions():
                    continue
                m.rename(a, b)
                ops.append({"op": "rename", "id": a, "new": b})
        elif r < 0.55 and names:
            nm = hr.choice(names)
            rec = ns[nm][0]
            if rec.rt in ("L", "C"):
                ops.append({"op": "rm", "text": rec.render(), "how": "rm_obj"})
            else:
                ops.append({"op": "rm", "id": nm, "how": "rm"})
            for x in m.remove([rec]):
                removed.append(x.render())
        elif r < 0.62 and removed:
            t = hr.choice(removed)
            ops.append({"op": "add", "line": t, "as": "str"})
            m.add_text(t)
        elif r < 0.66 and version == "gfa1" and any(x.rt in ("L", "C") and x.tag("ID") for x in m.recs):
            rec = hr.choice([x for x in m.recs if x.rt in ("L", "C") and x.tag("ID")])
            ops.append({"op": "del_tag", "text": rec.render(), "tag": "ID"})
            m.del_tag(rec, "ID")
        elif r < 0.69 and version == "gfa2" and any(x.rt in ("O", "U") and m.name_of(x) for x in m.recs):
            # a further line of a multi-line group: same tag with an equal, a contradicting, a falsy value
            rec = hr.choice([x for x in m.recs if x.rt in ("O", "U") and m.name_of(x)])
            old = [t for t in rec.tags if t[1] in ("i", "Z", "J")]
            item = (sorted(x for x in ns if ns[x][0].rt == "S") or ["q"])[0] + ("+" if rec.rt == "O" else "")
            if old and hr.random() < 0.7:
                n_, t_, v_ = hr.choice(old)
                newv = hr.choice([v_, {"i": "0", "Z": "0", "J": "{}"}[t_], {"i": "7", "Z": "zz", "J": "[1]"}[t_]])
                tag = "%s:%s:%s" % (n_, t_, newv)
            else:
                tag = hr.choice(["gq:i:0", "gr:i:5", "gs:J:{}"])
            ln = "\t".join([rec.rt, m.name_of(rec), item, tag])
            ops.append({"op": "add", "line": ln, "as": hr.choice(["str", "obj"])})
            m.add_text(ln)
        elif r < 0.70:
            ops.append({"op": "unused_name"})
        elif r < 0.715:
            # a line which uses its own (fresh) identifier to refer to another line
            x = sh.fresh(hr)
            segs = [q for q in names if ns[q][0].rt == "S"]
            y = hr.choice(segs) if segs else sh.fresh(hr)
            if version == "gfa1":
                ln = hr.choice(["L\t%s\t+\t%s\t-\t*\tID:Z:%s" % (x, y, x), "C\t%s\t+\t%s\t+\t0\t*\tID:Z:%s" % (y, x, x),
                                "P\t%s\t%s+,%s+\t*" % (x, y, x)])
            else:
                ln = hr.choice(["E\t%s\t%s+\t%s-\t0\t1\t0\t1\t*" % (x, x, y), "E\t%s\t%s+\t%s-\t0\t1\t0\t1\t*" % (x, y, x),
                                "G\t%s\t%s+\t%s-\t10\t*" % (x, x, x), "O\t%s\t%s+ %s+" % (x, y, x),
                                "U\t%s\t%s %s" % (x, x, y)])
            ops.append({"op": "add", "line": ln, "as": hr.choice(["str", "obj"])})
        elif r < 0.74 and any(ns[x][0].rt != "S" for x in names):
            # a line mentions, where a segment is expected, an identifier carried by a line of another type:
            # accepting it would put a placeholder segment of the same name into the namespace
            bad = hr.choice([x for x in names if ns[x][0].rt != "S"])
            segs = [x for x in names if ns[x][0].rt == "S"]
            other = hr.choice(segs) if segs and hr.random() < 0.7 else sh.fresh(hr)
            a, b = (bad, other) if hr.random() < 0.5 else (other, bad)
            if version == "gfa1":
                ln = hr.choice(["L\t%s\t+\t%s\t-\t*" % (a, b), "C\t%s\t+\t%s\t+\t0\t*" % (a, b),
                                "P\t%s\t%s+,%s+\t*" % (sh.fresh(hr), a, b)])
            else:
                ln = hr.choice(["E\t%s\t%s+\t%s+\t0\t1\t0\t1\t*" % (sh.fresh(hr), a, b),
                                "G\t%s\t%s-\t%s+\t10\t*" % (sh.fresh(hr), a, b),
                                "E\t*\t%s+\t%s-\t0\t1\t0\t1\t*" % (a, b),
                                "F\t%s\tread1+\t0\t1\t0\t1\t*" % bad])
            ops.append({"op": "add", "line": ln, "as": hr.choice(["str", "obj"])})
        elif r < 0.745 and names:
            # a line of the Gfa is cloned, the clone is given the identifier of one of its own references and added
            # (a clone keeps its references in written form)
            ops.append({"op": "self_mention_clone", "i": hr.randrange(1000), "j": hr.randrange(1000)})
        elif r < 0.76:
            # a line with a fresh identifier that is refused while its references are resolved (not by the
            # duplicate search): begin > end, too many overlaps, a reference without orientation
            x = sh.fresh(hr)
            segs = [q for q in names if ns[q][0].rt == "S"]
            a = hr.choice(segs) if segs else sh.fresh(hr)
            b = hr.choice(segs) if segs and hr.random() < 0.7 else sh.fresh(hr)
            if version == "gfa1":
                ln = hr.choice(["P\t%s\t%s+,%s+,%s+\t1M,2M,3M,4M" % (x, a, b, a), "P\t%s\t%s+,%s+\t1M,2M,3M" % (x, a, b),
                                "L\t%s\t+\t%s\t+\t1M\tID:Z:%s" % (a, "", x)])
            else:
                ln = hr.choice(["E\t%s\t%s+\t%s+\t20\t10\t0\t5\t*" % (x, a, b), "E\t%s\t%s+\t%s-\t0\t5\t9\t3\t*" % (x, a, b),
                                "E\t%s\t%s\t%s+\t0\t1\t0\t1\t*" % (x, a, b), "G\t%s\t%s+\t%s\t10\t*" % (x, a, b)])
            ops.append({"op": "refused_add", "line": ln, "as": hr.choice(["str", "obj", "obj"]), "id": x})
        elif r < 0.79 and version == "gfa1":
            links = [x for x in m.recs if x.rt == "L"]
            if links:
                l = hr.choice(links)
                a, b = gtext.link_forms(l.pos)
                ops.append({"op": "add", "line": "\t".join(["L"] + list(b)), "as": hr.choice(["str", "obj"])})
        else:
            ln = hist.extra_line(hr, sh, dict(k, p_tags=0.2))
            if hr.random() < 0.4:
                # integer-looking identifiers drive unused_name()
                f = ln.split("\t")
                if f[0] in ("S", "P", "E", "G", "O", "U") and f[1] != "*":
                    f[1] = str(hr.randint(1, 60))
                    ln = "\t".join(f)
            ops.append({"op": "add", "line": ln, "as": hr.choice(["str", "obj"])})
            m.add_text(ln)
    if version == "gfa1" and hr.random() < 0.12:
        # a path over two fresh segments without a link: its placeholder link gets an identifier (the library
        # names it when the path is converted, or the caller does); another link then claims that identifier
        sh = hist.Shadow(version, m.render())
        sh.reserved = set(m.all_mentions())
        x1, x2, px = sh.fresh(hr), sh.fresh(hr), sh.fresh(hr)
        if len({x1, x2, px}) == 3:
            segs = sorted(x for x in m.namespace() if m.namespace()[x][0].rt == "S")
            other = hr.choice(segs) if segs else x1
            same = hr.random() < 0.35
            tpl = ("L\t%s\t+\t%s\t+\t4M" % (x1, x2)) if same else hr.choice(
                ["L\t%s\t-\t%s\t+\t2M" % (other, x2), "L\t%s\t+\t%s\t-\t4M" % (x1, x2),
                 "L\t%s\t+\t%s\t+\t3M" % (x1, x2)])
            ops += [{"op": "add", "line": "S\t%s\t*" % x1, "as": "str"}, {"op": "add", "line": "S\t%s\t*" % x2, "as": "str"},
                    {"op": "add", "line": "P\t%s\t%s+,%s+\t4M" % (px, x1, x2), "as": "str"},
                    {"op": "vlink_clash", "path": px, "how": hr.choice(["to_gfa2", "by_hand"]), "tpl": tpl,
                     "same": same}]
    return {"cfg": {"version": version, "vlevel": vlevel, "order": mode}, "ops": ops}


def expected_add(m, line):
    """-> 'ok' | 'notunique' | 'noop' | None (unspecified)"""
    mm = m.copy()
    res = mm.add_text(line)
    if res in ("ok", "merged"):
        return "ok"
    if res == "dup-complement":
        return "noop"
    if res == ("fail", "NotUnique"):
        return "notunique"
    if res == ("fail", "mention-clash"):
        return "mention-clash"
    if res == ("fail", "self-mention"):
        return "self-mention"
    return None


def check_lookup(w, m, st, n, op):
    g = w.gfa
    v = m.version
    for name, recs in sorted(m.namespace().items()):
        rec = recs[0]
        l = g.line(name)
        st.count("oracle.lookup")
        if l is None:
            raise core.Violation("lookup-none", "after step %d %r: gfa.line(%r) is None but %r carries it" %
                                 (n, op, name, rec.render()), op=op["op"], rt=rec.rt)
        got = gtext.canon_lines(ob.line_text(l), v)
        want = gtext.canon_lines(rec.render(), v)
        if got != want and not l.virtual:
            raise core.Violation("lookup-wrong", "after step %d %r: gfa.line(%r) returns %r, the document says %r" %
                                 (n, op, name, got, want), op=op["op"], rt=rec.rt)
        if rec.rt == "S" and g.segment(name) is not l:
            raise core.Violation("lookup-segment", "after step %d: gfa.segment(%r) disagrees with gfa.line" %
                                 (n, name), op=op["op"], rt="S")
        o = core.call(g.try_get_line, name)
        if not o.ok:
            raise core.Violation("lookup-try", "try_get_line(%r) raised %s" % (name, o.excname), op=op["op"], rt=rec.rt)
    used = set(m.namespace()) | m.all_mentions()
    for name in ("zzz_unused", "77777", "A_", "nope"):
        if name in used:
            continue
        st.count("probe.lookup_unused")
        if g.line(name) is not None or g.segment(name) is not None:
            raise core.Violation("lookup-ghost", "after step %d %r: lookup of unused identifier %r returns a line" %
                                 (n, op, name), op=op["op"])
        o = core.call(g.try_get_line, name)
        if o.ok or o.excname != "NotFoundError":
            raise core.Violation("lookup-ghost", "try_get_line(%r) on an unused identifier: %s" %
                                 (name, "returned" if o.ok else o.excname), op=op["op"])


def ghost_check(g, m, nm, line, n, st):
    """after a refused line: its identifier, if nothing in the document carries or mentions it, is not in use"""
    if nm in m.namespace() or nm in m.all_mentions() or nm == "*":
        return
    st.count("oracle.refused_identifier_unused")
    found = core.call(g.line, nm)
    listed = nm in [x for x in g.names if isinstance(x, str)]
    if (found.ok and found.value is not None) or listed:
        raise core.Violation("lookup-ghost", "step %d: %r was refused, but its identifier %r is %s" %
                             (n, line, nm, "listed in names" if listed else "found by gfa.line()"), op="add",
                             rt=line.split("\t")[0])


def vlink_clash(w, g, op, st, n):
    p = g.line(op["path"])
    if p is None or p.record_type != "P":
        return
    if op["how"] == "to_gfa2":
        if not core.call(p.to_gfa2).ok:
            return
    vls = [ol.line for ol in p.links if ol.line.virtual]
    if not vls:
        return
    vl = vls[0]
    if op["how"] == "by_hand":
        if not core.call(setattr, vl, "name", "vk1").ok:
            return
    nm = vl.name
    if not isinstance(nm, str) or nm == "*":
        return
    st.count("probe.virtual_link_named")
    st.count("oracle.virtual_link_id")
    if g.line(nm) is not vl:
        raise core.Violation("lookup-wrong", "step %d: the placeholder link of path %s carries %r but looking it up "
                             "returns %r" % (n, op["path"], nm, g.line(nm)), op="vlink_clash")
    line = op["tpl"] + "\tID:Z:" + nm
    before = ob.line_text(vl)
    out = core.call(g.add_line, line)
    if op["same"]:
        if not out.ok:
            raise core.Violation("fresh-rejected", "step %d: %r is the link the path %s asks for, under the identifier "
                                 "its placeholder carries, but raised %s: %s" %
                                 (n, line, op["path"], out.excname, str(out.exc)[:200]), op="vlink_clash",
                                 exc=out.excname)
    else:
        if out.ok or out.excname != "NotUniqueError":
            raise core.Violation("dup-accepted", "step %d: adding %r whose identifier %r is in use by %r %s" %
                                 (n, line, nm, before, "was accepted" if out.ok else "raised %s" % out.excname),
                                 op="vlink_clash", rt="L", prev="L", exc=out.excname)
        if g.line(nm) is not vl:
            raise core.Violation("lookup-wrong", "step %d: after the refused %r the identifier %r is carried by %r" %
                                 (n, line, nm, g.line(nm)), op="vlink_clash")
    try:
        inv.registry_coherent(g)
    except inv.Bad as b:
        raise core.Violation("registry-" + b.clause, "after step %d %r: %s" % (n, op, b.detail),
                             op="vlink_clash", rts=list(b.rts))


def run(scn, st):
    w = World(st)
    version = scn["cfg"]["version"]
    m = None
    for n, op in enumerate(scn["ops"]):
        if op["op"] == "new":
            w.apply(op)
            m = Doc(version)
            continue
        if w.gfa is None:
            continue
        if m.unspecified:
            return
        g = w.gfa
        kind = op["op"]
        if g.version is None and kind != "flush":
            # version undecided: records are queued, nothing is registered yet (C13's business)
            if kind == "add":
                w.apply(op)
                m.add_text(op["line"])
            continue
        exp = None
        if kind == "unused_name":
            o = core.call(g.unused_name)
            st.count("probe.unused_name")
            st.count("oracle.unused_name")
            if o.ok and (o.value in g.names or o.value in m.namespace()):
                raise core.Violation("unused-name-used", "step %d: unused_name() returned %r which is in use" %
                                     (n, o.value), op=kind)
            continue
        if kind == "vlink_clash":
            vlink_clash(w, g, op, st, n)
            return
        if kind == "self_mention_clone":
            cands = [l for l in ob.listed_lines(g) if l.record_type in ("E", "G", "O", "U", "P") and not l.virtual
                     and isinstance(l.name, str)]
            if not cands:
                continue
            src = cands[op["i"] % len(cands)]
            refs = sorted(set(x for x in m.mentions(gtext.tokenize(ob.line_text(src), version)) if x != src.name))
            if not refs:
                continue
            y = refs[op["j"] % len(refs)]
            c = core.call(src.clone)
            if not c.ok:
                continue
            core.call(setattr, c.value, "name", y)
            pre_names = sorted(x for x in g.names if isinstance(x, str))
            out = core.call(g.add_line, c.value)
            st.count("probe.self_mention_clone")
            st.count("oracle.self_mention_clone")
            if out.ok:
                raise core.Violation("self-mention-accepted", "step %d: a clone of %r renamed to %r (one of its own "
                                     "references) was accepted" % (n, ob.line_text(src), y), op=kind, rt=src.record_type)
            if sorted(x for x in g.names if isinstance(x, str)) != pre_names:
                raise core.Violation("lookup-ghost", "step %d: the refused clone of %r renamed to %r changed the names: %r" %
                                     (n, ob.line_text(src), y, sorted(x for x in g.names if isinstance(x, str))), op=kind,
                                     rt=src.record_type)
        elif kind == "refused_add":
            out = w.apply(dict(op, op="add"))
            if out.ok:
                m.unspecified = "malformed line accepted (no validation promised at this level)"
                return
            st.count("probe.refused_fresh")
            ghost_check(g, m, op["id"], op["line"], n, st)
        if kind in ("refused_add", "self_mention_clone"):
            pass
        elif kind == "add":
            exp = expected_add(m, op["line"])
            pl = gtext.tokenize(op["line"], version)
            nm = m.name_of(pl)
            if nm is not None and nm.isdigit():
                st.count("probe.int_names")
            if exp == "notunique":
                prev = m.namespace()[nm][0]
                st.count("probe.dup_same_type" if prev.rt == pl.rt else "probe.dup_other_type")
                if prev.rt in ("L", "C") or pl.rt in ("L", "C"):
                    st.count("probe.dup_vs_id_tag")
            if exp == "noop":
                st.count("probe.complement_link")
            if exp is None:
                m.unspecified = "unspecified add"
                w.apply(op)
                return
            pre_canon = m.canon()
            out = w.apply(op)
            st.count("oracle.add_outcome")
            if not out.ok and nm is not None:
                ghost_check(g, m, nm, op["line"], n, st)
            if exp == "notunique":
                if out.ok or out.excname != "NotUniqueError":
                    raise core.Violation("dup-accepted",
                                         "step %d: adding %r whose identifier %r is in use by %r %s" %
                                         (n, op["line"], nm, prev.render(),
                                          "was accepted" if out.ok else "raised %s" % out.excname),
                                         op=kind, rt=pl.rt, prev=prev.rt, exc=out.excname)
            elif exp == "self-mention":
                st.count("probe.self_mention")
                if out.ok:
                    raise core.Violation("self-mention-accepted",
                                         "step %d: the group %r lists itself and was accepted" % (n, op["line"]),
                                         op=kind, rt=pl.rt)
            elif exp == "mention-clash":
                st.count("probe.mention_clash")
                selfm = nm is not None and pl.rt in ("O", "U") and nm in m.mentions(pl)   # also lists itself
                if out.ok or (out.excname != "NotUniqueError" and not (selfm and out.excname == "RuntimeError")):
                    raise core.Violation("mention-clash-accepted",
                                         "step %d: %r uses, where a segment is expected or as its own name, an identifier "
                                         "which a line of another type carries or mentions; it %s" %
                                         (n, op["line"], "was accepted" if out.ok else "raised %s" % out.excname),
                                         op=kind, rt=pl.rt, exc=out.excname)
            elif exp == "ok":
                if not out.ok:
                    raise core.Violation("fresh-rejected", "step %d: %r is legal but raised %s: %s" %
                                         (n, op["line"], out.excname, str(out.exc)[:200]),
                                         op=kind, rt=pl.rt, exc=out.excname, frame=out.frame)
                r = m.add_text(op["line"])
                if r == "merged":
                    st.count("probe.group_merge")
            elif exp == "noop":
                if not out.ok:
                    raise core.Violation("complement-rejected", "step %d: the complement %r of a stored link raised %s" %
                                         (n, op["line"], out.excname), op=kind, exc=out.excname, frame=out.frame)
        elif kind == "rename":
            rec = m.by_name(op["id"])
            if rec is None:
                if g.line(op["id"]) is not None and not g.line(op["id"]).virtual:
                    m.unspecified = "target unknown to the model"
                    return
                continue
            new = op["new"]
            used = new in m.namespace()
            clash = (not used) and new in m.all_mentions()
            if clash or new == "*":
                m.unspecified = "rename onto a mentioned, undefined identifier"
                w.apply(op)
                return
            out = w.apply(op)
            st.count("oracle.rename_outcome")
            if used and new != op["id"]:
                st.count("probe.rename_used")
                other = m.namespace()[new][0]
                same_group = rec.rt in ("O", "U") and other.rt == rec.rt
                if out.ok and not same_group:
                    raise core.Violation("rename-onto-used",
                                         "step %d: renaming %r to %r (in use by %r) was accepted" %
                                         (n, op["id"], new, other.render()), op=kind, rt=rec.rt, prev=other.rt)
                if not out.ok and out.excname != "NotUniqueError":
                    raise core.Violation("rename-onto-used", "step %d: renaming %r to the used %r raised %s" %
                                         (n, op["id"], new, out.excname), op=kind, rt=rec.rt, exc=out.excname)
                if out.ok and same_group:
                    m.unspecified = "group merged by rename"
                    return
            elif new != op["id"]:
                st.count("probe.rename_fresh")
                if not out.ok:
                    raise core.Violation("rename-fresh-rejected", "step %d: renaming %r to the fresh %r raised %s: %s" %
                                         (n, op["id"], new, out.excname, str(out.exc)[:200]),
                                         op=kind, rt=rec.rt, exc=out.excname, frame=out.frame)
                m.rename(op["id"], new)
        elif kind in ("rm", "del_tag"):
            exp2 = c05.model_apply(m, op, st)
            if exp2 == "skip":
                continue
            out = w.apply(op)
            if not out.ok:
                raise core.Violation("rm-rejected", "step %d %r raised %s" % (n, op, out.excname), op=kind,
                                     exc=out.excname, frame=out.frame)
        else:
            w.apply(op)
            continue
        # ---- invariants after every step
        try:
            inv.registry_coherent(g)
            st.count("oracle.registry_coherent")
        except inv.Bad as b:
            raise core.Violation("registry-" + b.clause, "after step %d %r: %s" % (n, op, b.detail),
                                 op=kind, rts=list(b.rts))
        if m.unspecified:
            return
        check_lookup(w, m, st, n, op)
        if m.settled() and g.version == version:
            st.count("oracle.text_equals_model")
            c05.compare(w, m, st, n, op)
        st.state(digest([sorted(m.namespace()), kind]))


from .c02 import simplify  # noqa: E402,F401
