"""C08 — a failed mutation leaves the Gfa unchanged.

Workload: a document delivered in a scheduled order, then a history mixing
legal mutations with the bad-call catalogue (DESIGN §4.3), several failing
calls in a row, failing calls while placeholders exist / while the version is
undecided. Oracle: for every mutation call that raised, observe(gfa) before ==
after (text, version, names, lookups, references, back-references, virtual
flags); the caller's own Line object is still unconnected and textually
unchanged. Sound by construction: the implementation is compared with itself.
"""
from .. import gen as G, hist, core, inv
from ..world import World
from ..rng import digest
from .. import observe as ob
from .c07 import corrupt

PROP = "C08"
RUNS = {"quick": 4000, "thorough": 90000}
WALL = {"quick": 280, "thorough": 3500}
RULE = ("one run = document + scheduled delivery + history with failing calls; full observation "
        "compared around every call that raised; distinct = distinct (state digest, failing op) pairs")
PROBES = ["failed_call", "failed_in_a_row", "failed_with_placeholder", "failed_version_undecided",
          "failed_obj_add", "legal_after_failure"]
# process_line_queue ('flush') is not one of the calls C08 names (add, rename, remove, edit a field)
MUTATING = ("flush", "add", "rm", "rename", "set_tag", "del_tag", "set_field", "readd_connected", "set_datatype", "header_add", "held_call", "grp_edit", "add_many", "rm_other_group", "add_set_of_foreign_lines")


def gen(streams, tier, i):
    cfg = streams.get("config")
    k = G.swarm_knobs(cfg)
    doc = G.gen_doc(streams.get("document"), k)
    sr = streams.get("schedule")
    lines, mode = hist.schedule(sr, doc["lines"])
    vlevel = cfg.choice([0, 1, 1, 2, 3])
    version = cfg.choice([None, None, doc["version"]])
    hr = streams.get("history")
    fr = streams.get("faults")
    ops = [{"op": "new", "vlevel": vlevel, "version": version}]
    sh = hist.Shadow(doc["version"], [])
    # deliver, with failing calls placed inside the delivery (placeholders / undecided version)
    p_in = cfg.choice([0.0, 0.05, 0.15])
    drop = fr.randrange(len(lines)) if (lines and fr.random() < 0.2) else -1
    for j, ln in enumerate(lines):
        if j == drop:
            continue
        ops.append({"op": "add", "line": ln, "as": "obj" if sr.random() < 0.15 else "str"})
        sh.note(ln)
        if fr.random() < p_in:
            ops += hist.bad_op(fr, sh, k, corrupt)[1]
    if cfg.random() < 0.8:
        ops.append({"op": "flush"})
    n = hr.randint(2, 10 if tier == "quick" else 20)
    p_bad = cfg.choice([0.3, 0.5, 0.8])
    for _ in range(n):
        if hr.random() < p_bad:
            ops += hist.bad_op(fr, sh, k, corrupt)[1]
            if fr.random() < 0.3:
                ops += hist.bad_op(fr, sh, k, corrupt)[1]
        else:
            ops += hist.mutation_ops(hr, sh, 1, k, p_bad=0.0)
    return {"cfg": {"version": doc["version"], "order": mode, "vlevel": vlevel}, "ops": ops}


def _rts(w, op):
    r = []
    if op["op"] == "add":
        r.append(op["line"].split("\t")[0][:2])
    else:
        try:
            t = w._target(op)
            if t is not None:
                r.append(t.record_type)
        except Exception:
            pass
    return r


def run(scn, st):
    w = World(st)
    prev_failed = False
    for n, op in enumerate(scn["ops"]):
        if w.gfa is None and op["op"] != "new":
            continue
        if op["op"] not in MUTATING:
            w.apply(op)
            continue
        pre = ob.observe(w.gfa)
        pre_dt = declared_datatypes(w.gfa)
        rts = _rts(w, op)
        has_ph = any(e["virtual"] for e in pre["graph"].values())
        undecided = pre["version"] is None
        out = w.apply(op)
        st.count("outcome." + out.kind)
        if out.ok:
            if prev_failed:
                st.count("probe.legal_after_failure")
            prev_failed = False
            st.state(digest(ob.observe(w.gfa)))
            continue
        st.count("probe.failed_call")
        if prev_failed:
            st.count("probe.failed_in_a_row")
        if has_ph:
            st.count("probe.failed_with_placeholder")
        if undecided:
            st.count("probe.failed_version_undecided")
        prev_failed = True
        post = ob.observe(w.gfa)
        st.count("oracle.unchanged_after_failure")
        st.state(digest([digest(pre), op["op"], out.excname]))
        post_dt = declared_datatypes(w.gfa)
        if pre == post and pre_dt != post_dt:
            d = [(k, pre_dt.get(k), post_dt.get(k)) for k in sorted(set(pre_dt) | set(post_dt)) if pre_dt.get(k) != post_dt.get(k)]
            raise core.Violation("changed-after-failure",
                                 "step %d %r raised %s but the declared tag datatypes changed: %r" % (n, op, out.excname, d[:3]),
                                 op=op["op"], rts=rts, exc=out.excname, frame=out.frame, what="datatypes")
        if pre != post:
            raise core.Violation("changed-after-failure",
                                 "step %d %r raised %s but the Gfa changed: %s" %
                                 (n, op, out.excname, diff_obs(pre, post)),
                                 op=op["op"], rts=rts, exc=out.excname, frame=out.frame,
                                 what=diff_kind(pre, post))
        if op["op"] == "add" and op.get("as") == "obj" and w.last_line_obj is not None:
            lo = w.last_line_obj
            st.count("probe.failed_obj_add")
            if lo.gfa is not None or lo.is_connected():
                raise core.Violation("rejected-line-connected",
                                     "step %d: add_line(Line(%r)) raised %s but the caller's line reports an owner" %
                                     (n, op["line"], out.excname), op="add", rts=rts, exc=out.excname,
                                     frame=out.frame)
            # textual form unchanged (tags as a set, canonical spelling)
            from ..gtext import canon_lines
            try:
                a = canon_lines(ob.line_text(lo), lo.version if lo.version in ("gfa1", "gfa2") else None)
                before = getattr(w, "last_line_obj_text", None)
                b = canon_lines(before if before is not None else op["line"],
                                lo.version if lo.version in ("gfa1", "gfa2") else None)
            except Exception:
                a = b = None
            if a != b:
                raise core.Violation("rejected-line-changed",
                                     "step %d: rejected line %r now writes as %r" % (n, op["line"], ob.line_text(lo)),
                                     op="add", rts=rts, exc=out.excname, frame=out.frame)


def declared_datatypes(gfa):
    """line key -> the datatypes the line has on record for its tags (what get_datatype answers), header included"""
    out = {}
    try:
        lines = list(ob.reachable_lines(gfa)) + [gfa.header]
        keys = ob.make_keys(gfa, lines)
        for l in lines:
            out[keys.get(id(l), "H")] = sorted((t, str(d)) for t, d in l._datatype.items()
                                               if t not in l.positional_fieldnames)
    except Exception as e:
        out["<unreadable>"] = type(e).__name__
    return out


def diff_kind(a, b):
    for key in ("version", "lines", "names", "lookup"):
        if a[key] != b[key]:
            return key
    return "graph"


def diff_obs(a, b):
    out = []
    if a["version"] != b["version"]:
        out.append("version %r -> %r" % (a["version"], b["version"]))
    if a["lines"] != b["lines"]:
        gone = [x for x in a["lines"] if x not in b["lines"]]
        new = [x for x in b["lines"] if x not in a["lines"]]
        out.append("lines gone %r new %r" % (gone[:3], new[:3]))
    if a["names"] != b["names"]:
        out.append("names %r -> %r" % (a["names"]["names"], b["names"]["names"]))
    if a["graph"] != b["graph"]:
        ks = sorted(set(a["graph"]) | set(b["graph"]))
        for k in ks:
            if a["graph"].get(k) != b["graph"].get(k):
                out.append("graph[%s]: %r -> %r" % (k, a["graph"].get(k), b["graph"].get(k)))
                break
    return "; ".join(out)[:900]


from .c02 import simplify  # noqa: E402,F401
