"""C13 — the GFA version is inferred from content and enforced consistently.

Schedule = relative order of deciding / ambiguous / conflicting records,
chunking between constructor and add_line, explicit queue flushes at arbitrary
points and repeated. Fault = a record that fails inside the queue, after which
the client catches and carries on. Oracles: version == model for every order;
mixed documents end in VersionError in every order; exactly-once for queued
records after any number of flushes (also after a flush that raised).
"""
import gfapy
from .. import gen as G, hist, core, gtext
from ..model import Doc
from ..world import World
from ..rng import digest
from .. import observe as ob
from .c03 import canon_u, adversarial, keep_o_order

PROP = "C13"
RUNS = {"quick": 20000, "thorough": 700000}
WALL = {"quick": 280, "thorough": 3500}
RULE = ("one run = one document of a class (pure gfa1 / pure gfa2 / neutral / mixed) delivered in k "
        "orders with flush placements and version/dialect parameters; distinct = distinct (document, "
        "order, flush positions) digests")
PROBES = ["pure", "neutral", "mixed_content", "mixed_vn", "mixed_param", "mixed_rgfa", "flush_midway",
          "flush_repeated", "queue_nonempty_at_decision", "failing_record_in_queue", "deciding_last",
          "header_contradiction_offered", "entry_clones", "entry_header_api", "header_declaration_refused_first"]

OTHER1 = ["S\tzz9\t5\t*", "E\t*\tzz1+\tzz2-\t0\t1\t0\t1\t*", "G\t*\tzz1+\tzz2-\t5\t*", "U\tzz8\tzz1",
          "O\tzz7\tzz1+", "F\tzz1\tr+\t0\t1\t0\t1\t*", "X\tfoo"]
OTHER2 = ["S\tzz9\t*", "L\tzz1\t+\tzz2\t-\t*", "C\tzz1\t+\tzz2\t-\t0\t*", "P\tzz7\tzz1+\t*"]


def gen(streams, tier, i):
    cfg = streams.get("config")
    k = G.swarm_knobs(cfg)
    k["taglike_seq"] = True
    k["ln_tag"] = True
    k["max_seg"] = cfg.choice([1, 2, 3])
    k["max_link"] = cfg.choice([0, 2, 4])
    k["max_edge"] = cfg.choice([0, 2, 4])
    k["p_vn"] = cfg.choice([0.0, 0.5])
    dr = streams.get("document")
    klass = cfg.choice(["pure", "pure", "neutral", "mixed_content", "mixed_vn", "mixed_param", "mixed_rgfa",
                        "pure_fault"])
    doc = G.gen_doc(dr, k)
    lines = list(doc["lines"])
    version = doc["version"]
    vlevel = cfg.choice([0, 1, 1, 2, 3])
    vparam = None
    dialect = "standard"
    expect = version
    bad_line = None
    if klass == "neutral":
        lines = [ln for ln in lines if ln.split("\t")[0] in ("H", "#") and "VN:Z" not in ln] or ["# only a comment"]
        expect = "either"
        if cfg.random() < 0.35:
            # the rGFA dialect is GFA1 only: a document without deciding content is a gfa1 one there
            lines = [ln for ln in lines if ln.startswith("#")] or ["# only a comment"]
            dialect = "rgfa"
            expect = "gfa1"
            klass = "neutral_rgfa"
    elif klass == "mixed_content":
        other = OTHER1 if version == "gfa1" else OTHER2
        for o in dr.sample(other, dr.randint(1, 2)):
            lines.insert(dr.randint(0, len(lines)), o)
        expect = "error"
    elif klass == "mixed_vn":
        lines = [ln for ln in lines if "VN:Z" not in ln]
        if not any(ln.split("\t")[0] in ("S", "L", "C", "P", "E", "G", "F", "O", "U") for ln in lines):
            lines.append("S\tzz1\t*" if version == "gfa1" else "S\tzz1\t4\t*")
        lines.insert(dr.randint(0, len(lines)), "H\tVN:Z:%s" % ("2.0" if version == "gfa1" else "1.0"))
        # (every level: the other mixed documents are refused at level 0 too, and whether this one is must not
        # depend on whether the header comes first)
        expect = "error"
    elif klass == "mixed_param":
        vparam = "gfa2" if version == "gfa1" else "gfa1"
        if not any(ln.split("\t")[0] in ("S", "L", "C", "P", "E", "G", "F", "O", "U") for ln in lines):
            lines.append("S\tzz1\t*" if version == "gfa1" else "S\tzz1\t4\t*")
        expect = "error"
    elif klass == "mixed_rgfa":
        if version == "gfa1":
            klass = "pure"
        else:
            dialect = "rgfa"
            vlevel = cfg.choice([1, 2, 3])
            expect = "error"
    elif klass == "pure_fault":
        if version == "gfa1":
            bad_line = dr.choice(["L\tzz1\t+", "C\tzz1\t+\tzz2", "P\tzz7", "L"])
        else:
            klass = "pure"
    if klass == "pure" and cfg.random() < 0.3:
        vparam = version
    sr = streams.get("schedule")
    n = len(lines)
    ops = []
    korders = 4 if tier == "quick" else 10
    modes = ["given", "deciding_last", "refs_first", "reverse", "defs_first", "riffle", "shuffle", "shuffle"]
    for j in range(korders):
        mode = modes[j % len(modes)] if sr.random() < 0.6 else "shuffle"
        perm = list(range(n)) if mode == "given" else adversarial(sr, lines, mode)
        perm = keep_o_order(lines, perm)
        entry = sr.choice(["list", "str_nl", "incremental", "incremental", "incremental", "file_crlf"] +
                          (["clones", "header_api"] if klass == "pure" and vparam is None else []))
        flushes = []
        if entry == "incremental":
            for _ in range(sr.choice([0, 0, 1, 2, 3])):
                flushes.append(sr.randint(0, n))
        ops.append({"op": "order", "perm": perm, "entry": entry, "mode": mode,
                    "chunk": sr.randint(0, n) if entry == "incremental" else n, "flushes": sorted(flushes),
                    "bad_at": sr.randint(0, n) if bad_line else None})
    return {"cfg": {"version": version, "class": klass, "expect": expect, "vlevel": vlevel, "vparam": vparam,
                    "dialect": dialect, "bad_line": bad_line},
            "lines": lines, "ops": ops}


def deliver_incremental(lines, perm, op, cfg, st):
    """Client loop: catches errors and carries on. Returns (gfa, [exceptions])."""
    errs = []
    ordered = [lines[i] for i in perm]
    kw = dict(vlevel=cfg["vlevel"], version=cfg["vparam"], dialect=cfg["dialect"])
    chunk = min(op.get("chunk", 0), len(ordered))
    bad_at = op.get("bad_at")
    o = core.call(gfapy.Gfa, **kw)
    if not o.ok:
        return None, [o]
    g = o.value
    start = 0
    flushes = list(op.get("flushes", []))
    for pos in range(start, len(ordered) + 1):
        if bad_at is not None and pos == bad_at and cfg.get("bad_line"):
            if g.version is None:
                st.count("probe.failing_record_in_queue")
            r = core.call(g.add_line, cfg["bad_line"])
            if not r.ok:
                errs.append(r)
        while flushes and flushes[0] == pos:
            flushes.pop(0)
            # an explicit flush while the version is undecided *forces* the guess (documented use for
            # incomplete Gfa objects): only flush mid-stream once a deciding record has been delivered
            if not any(ln.split("\t")[0] in ("S", "E", "F", "G", "O", "U") or "VN:Z:" in ln
                       for ln in ordered[:pos]) and cfg["vparam"] is None:
                continue
            st.count("probe.flush_midway")
            r = core.call(g.process_line_queue)
            if not r.ok:
                errs.append(r)
                # the client catches and flushes again (repeatedly) to drain the queue
                for _ in range(len(ordered) + 2):
                    st.count("probe.flush_repeated")
                    r2 = core.call(g.process_line_queue)
                    if r2.ok:
                        break
                    errs.append(r2)
        if pos == len(ordered):
            break
        if g.version is None and getattr(g, "_line_queue", None):
            st.count("probe.queue_nonempty_at_decision")
        r = core.call(g.add_line, ordered[pos])
        if not r.ok:
            errs.append(r)
            if cfg.get("bad_line") and cfg["expect"] != "error":
                # a queued bad record makes the deciding line fail (state restored): drain, retry
                for _ in range(len(ordered) + 2):
                    r2 = core.call(g.process_line_queue)
                    if r2.ok:
                        break
                    errs.append(r2)
                r3 = core.call(g.add_line, ordered[pos])
                if not r3.ok:
                    errs.append(r3)
    for _ in range(len(ordered) + 3):
        r = core.call(g.process_line_queue)
        if r.ok:
            break
        errs.append(r)
    st.count("probe.flush_repeated")
    r = core.call(g.process_line_queue)
    if not r.ok:
        errs.append(r)
    if cfg["vlevel"] >= 1:
        r = core.call(g.validate)
        if not r.ok:
            errs.append(r)
    return g, errs


def run(scn, st):
    lines = scn["lines"]
    cfg = scn["cfg"]
    expect = cfg["expect"]
    st.count("probe." + cfg["class"].replace("pure_fault", "pure"))
    m = None
    if expect in ("gfa1", "gfa2") and not any(
            ln.split("\t")[0] in ("S", "L", "C", "P", "E", "G", "F", "O", "U") or "VN:Z:" in ln for ln in lines):
        expect = "either"
    if expect in ("gfa1", "gfa2"):
        m = Doc(cfg["version"])
        for ln in lines:
            if m.add_text(ln) not in ("ok", "merged", "dup-complement"):
                return
        if not m.settled():
            return
        want = canon_u(m.canon())
    seen_version = None
    for op in scn["ops"]:
        st.step()
        st.count("op.order")
        perm = [i for i in op["perm"] if i < len(lines)]
        perm += [i for i in range(len(lines)) if i not in perm]
        perm = keep_o_order(lines, perm)
        st.sched(digest([digest(lines), perm, op["entry"], op.get("flushes"), op.get("chunk")]))
        if op.get("mode") == "deciding_last":
            st.count("probe.deciding_last")
        w = World(st)
        if op["entry"] == "header_api":
            # the version is declared through the header of the still empty Gfa (accessor, set or add) instead of an
            # H line, then the lines follow: the declared version is the version, and content of the other version
            # is refused, as after 'H VN:Z:...'
            st.count("probe.entry_header_api")
            how = ("attr", "set", "add")[len(perm) % 3]
            declared = expect if (sum(perm[:2]) % 2 == 0 or any("VN:Z" in ln for ln in lines)) else \
                ("gfa2" if expect == "gfa1" else "gfa1")
            vn = "1.0" if declared == "gfa1" else "2.0"

            def deliver_after_header():
                g_ = gfapy.Gfa(vlevel=cfg["vlevel"], dialect=cfg["dialect"])
                h_ = g_.header
                (setattr(h_, "VN", vn) if how == "attr" else (h_.set("VN", vn) if how == "set" else h_.add("VN", vn)))
                for i_ in perm:
                    g_.add_line(lines[i_])
                g_.process_line_queue()
                return g_
            def deliver_declared_late():
                # GFA1 records which do not decide the version wait in the queue; a declaration of the other version
                # through the header is refused then (nothing changes), the right one is made afterwards
                g_ = gfapy.Gfa(vlevel=cfg["vlevel"], dialect=cfg["dialect"])
                rest, queued = [], 0
                for i_ in perm:
                    if g_.version is None and lines[i_].split("\t")[0] in ("L", "C", "P", "#"):
                        g_.add_line(lines[i_])
                        queued += lines[i_][0] != "#"
                    else:
                        rest.append(i_)
                if g_.version is not None or not queued:
                    return None
                h_ = g_.header
                try:
                    (setattr(h_, "VN", "2.0") if how == "attr" else (h_.set("VN", "2.0") if how == "set" else h_.add("VN", "2.0")))
                    return None
                except gfapy.Error:
                    st.count("probe.header_declaration_refused_first")
                (setattr(h_, "VN", vn) if how == "attr" else (h_.set("VN", vn) if how == "set" else h_.add("VN", vn)))
                late_seen.append((g_.version, len(g_._line_queue)))
                for i_ in rest:
                    g_.add_line(lines[i_])
                g_.process_line_queue()
                return g_
            o = None
            late_seen = []
            if declared == expect == "gfa1" and len(perm) % 2:
                o = core.call(deliver_declared_late)
                if o.ok and o.value is None:
                    o = None
                if late_seen and late_seen[0] != ("gfa1", 0):
                    raise core.Violation("wrong-version", "queued GFA1 records, header.VN = '2.0' refused, then header.VN = "
                                         "'1.0' (%s): version %r, %d line(s) still queued" %
                                         (how, late_seen[0][0], late_seen[0][1]), entry="header_api", klass="declared-late")
            if o is None:
                o = core.call(deliver_after_header)
            if declared != expect:
                st.count("oracle.version")
                has_specific = any(ln.split("\t")[0] in ("S", "L", "C", "P", "E", "G", "F", "O", "U") for ln in lines)
                if has_specific and (o.ok or o.excname != "VersionError"):
                    raise core.Violation("mixed-accepted", "header.VN = %r (%s) on the empty Gfa, then a %s document: %s" %
                                         (vn, how, expect, "accepted, version %r" % o.value.version if o.ok else "raised " + o.excname),
                                         klass="header-api-first", entry=how)
                continue
            g, errs = (o.value, []) if o.ok else (None, [o])
        elif op["entry"] == "clones":
            # the document is parsed once; copies of its lines (clone()) are added, in the scheduled order, to a
            # Gfa that knows nothing yet: the content decides the version as it does for text
            st.count("probe.entry_clones")
            src = w.construct("list", lines, vlevel=cfg["vlevel"], dialect=cfg["dialect"])
            if not src.ok:
                continue
            by_text = {}
            for l in ob.listed_lines(src.value):
                if not l.virtual:
                    by_text.setdefault(gtext.canon_lines(ob.line_text(l), cfg["version"])[0], []).append(l)

            def deliver_clones():
                g_ = gfapy.Gfa(vlevel=cfg["vlevel"], dialect=cfg["dialect"])
                for i_ in perm:
                    key = gtext.canon_lines(lines[i_], cfg["version"])
                    cand = by_text.get(key[0] if key else None)
                    if cand:
                        g_.add_line(cand[0].clone())
                    else:
                        g_.add_line(lines[i_])      # (headers / merged lines: as text)
                g_.process_line_queue()
                return g_
            o = core.call(deliver_clones)
            g, errs = (o.value, []) if o.ok else (None, [o])
        elif op["entry"] == "incremental":
            g, errs = deliver_incremental(lines, perm, op, cfg, st)
        else:
            o = w.construct(op["entry"], [lines[i] for i in perm], vlevel=cfg["vlevel"], version=cfg["vparam"],
                            dialect=cfg["dialect"])
            g, errs = (o.value, []) if o.ok else (None, [o])
        names = [e.excname for e in errs]
        st.count("oracle.version")
        if expect == "error":
            if "VersionError" not in names:
                raise core.Violation("mixed-accepted",
                                     "%s document %r (order %r, entry %s, vlevel %d, version=%r, dialect=%s) "
                                     "raised %r, no VersionError; gfa.version=%r" %
                                     (cfg["class"], [lines[i] for i in perm], perm, op["entry"], cfg["vlevel"],
                                      cfg["vparam"], cfg["dialect"], names, getattr(g, "version", None)),
                                     klass=cfg["class"], entry=op["entry"])
            continue
        real_errs = [e for e in errs]
        if cfg.get("bad_line") is None and real_errs:
            e = real_errs[0]
            raise core.Violation("pure-rejected",
                                 "document valid as %s rejected (order %r, entry %s): %s: %s" %
                                 (expect, perm, op["entry"], e.excname, str(e.exc)[:300]),
                                 exc=e.excname, frame=e.frame, entry=op["entry"])
        if g is None:
            continue
        v = g.version
        if expect == "either":
            # a version-neutral document: whatever the default is, it is the same for every order and every
            # entry point (the version depends on the content alone) and it is a version, not 'undecided'
            if seen_version is None:
                seen_version = {}
            if v is None:
                raise core.Violation("version-undecided", "neutral document: version is None after the whole document "
                                     "was read (order %r, entry %s)" % (perm, op["entry"]), entry=op["entry"])
            if "*" not in seen_version:
                seen_version["*"] = (v, op["entry"])
            elif v != seen_version["*"][0]:
                raise core.Violation("version-order-dependent",
                                     "neutral document: version %r (entry %s), %r in order %r (entry %s)" %
                                     (seen_version["*"][0], seen_version["*"][1], v, perm, op["entry"]),
                                     entry=op["entry"])
            continue
        if v != expect:
            raise core.Violation("wrong-version", "document is %s but gfa.version=%r (order %r, entry %s)" %
                                 (expect, v, perm, op["entry"]), entry=op["entry"])
        st.count("oracle.exactly_once")
        got = canon_u(gtext.canon_doc(ob.text_lines(g), expect))
        if op["entry"] == "header_api":
            # (the declaration made through the header is written as an H line of its own)
            decl = "H\tVN:Z:%s" % ("1.0" if expect == "gfa1" else "2.0")
            if decl in got and decl not in want:
                got = list(got)
                got.remove(decl)
        st.state(digest([got, perm]))
        if got != want:
            extra = [x for x in got if x not in want or got.count(x) > want.count(x)]
            missing = [x for x in want if x not in got]
            raise core.Violation("not-exactly-once",
                                 "order %r entry %s flushes %r: lines delivered once appear %s: extra %r missing %r" %
                                 (perm, op["entry"], op.get("flushes"), "differently", extra[:3], missing[:3]),
                                 entry=op["entry"], what=("extra" if extra else "") + ("missing" if missing else ""))
        # each H line delivered was taken in once (the one which declares the version too)
        n_h = sum(1 for ln in lines if ln.split("\t")[0] == "H")
        n_in = core.call(lambda: g.n_input_header_lines)
        st.count("oracle.header_lines_counted_once")
        if n_in.ok and n_in.value not in ((n_h, n_h + 1) if op["entry"] == "header_api" else (n_h,)):
            raise core.Violation("not-exactly-once", "order %r entry %s: %d H lines were delivered, the Gfa counts %r "
                                 "input header lines" % (perm, op["entry"], n_h, n_in.value), entry=op["entry"],
                                 what="header-count")
        if cfg["class"] == "pure" and not any("VN:Z" in ln for ln in lines) and len(perm) % 2 == 0:
            # the version decided by the content cannot be contradicted afterwards through the header either:
            # the header is given the other version (refused), or the Gfa would write a document it refuses to read
            other = "2.0" if expect == "gfa1" else "1.0"
            how = ("attr", "set", "add")[len(lines) % 3]
            hdr = g.header
            r = core.call(setattr, hdr, "VN", other) if how == "attr" else (
                core.call(hdr.set, "VN", other) if how == "set" else core.call(hdr.add, "VN", other))
            st.count("probe.header_contradiction_offered")
            st.count("oracle.header_contradiction")
            if r.ok:
                back = core.call(gfapy.Gfa, "\n".join(ob.text_lines(g)), vlevel=max(1, cfg["vlevel"]))
                if not back.ok and back.excname == "VersionError":
                    raise core.Violation("mixed-accepted",
                                         "a %s Gfa accepted header.VN = %r (%s); what it writes now is refused with "
                                         "VersionError" % (expect, other, how), klass="header-api", entry=how)


from .c03 import simplify as _simp  # noqa: E402


def simplify(scn):
    if scn["cfg"]["expect"] in ("gfa1", "gfa2"):
        for c in _simp(scn):
            yield c
