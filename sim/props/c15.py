"""C15 — segment multiplication makes faithful copies and splits the counts.

Workload-driven (stated in DESIGN §6/C15): GFA1 graphs with count tags on
segments and edges, self-links, parallel links, containments, delivered in a
scheduled order (link lists are delivery ordered and drive _distribute_links);
multiply(seg, k, distribute, copy_names) for k in 0..4 and negative. The model
checks the post-state.
"""
import gfapy
from .. import gen as G, hist, core, gtext, inv
from ..model import Doc
from ..world import World
from ..rng import digest
from .. import observe as ob

PROP = "C15"
RUNS = {"quick": 4000, "thorough": 500000}
WALL = {"quick": 280, "thorough": 3500}
RULE = ("one run = GFA1 graph with count tags + scheduled delivery + one multiply call (factor, policy, "
        "names); post-state checked; distinct = distinct (neighbourhood digest, factor, policy) tuples")
PROBES = ["factor0", "factor1", "negative", "factor_ge2", "self_link", "parallel_links", "containment",
          "given_names", "auto_names_collision", "name_with_star", "distribute_L", "distribute_R",
          "distribute_auto", "distribute_equal", "counts_divided", "id_tagged_edge", "gfa2_graph", "bad_copy_names",
          "auto_names_collision_nonsegment", "mentioned_identifier", "not_a_segment", "track_origin",
          "copy_value_edited_in_place", "count_not_integer"]


def gen(streams, tier, i):
    cfg = streams.get("config")
    k = G.swarm_knobs(cfg)
    k.update({"max_seg": cfg.choice([2, 3, 4]), "max_link": cfg.choice([3, 6, 9]), "max_cont": cfg.choice([0, 2]),
              "max_path": 0, "p_counts": 0.7, "p_self": cfg.choice([0.0, 0.2, 0.4]), "overlap": cfg.choice(["match", "star", "mixed"]),
              "p_link_id": cfg.choice([0.0, 0.3]), "max_hdr": 0, "max_comment": 0, "p_tags": 0.3, "self_cont": True,
              "names": cfg.choice(["alpha", "alpha", "weird"])})
    version = cfg.choice(["gfa1", "gfa1", "gfa2"])
    if version == "gfa2":
        k.update({"max_edge": cfg.choice([3, 6, 9]), "max_gap": 1, "max_frag": 1, "max_ogroup": 0, "max_ugroup": 0,
                  "max_custom": 0, "etypes": ["dovetail", "dovetail", "cont", "internal"], "p_eid": cfg.choice([0.0, 0.6])})
    doc = G.gen_doc(streams.get("document"), k, version)
    lines = doc["lines"]
    if version == "gfa2":
        # count tags on some edges
        dr2 = streams.get("document2")
        lines = [ln + ("\t%s:i:%d" % (dr2.choice(["RC", "FC", "KC"]), dr2.randint(0, 200))
                       if (ln.startswith("E\t") and dr2.random() < 0.5) else "") for ln in lines]
    sr = streams.get("schedule")
    badcount = False
    bc = streams.get("badcount")
    if bc.random() < 0.08:
        # one edge carries a count that is not an integer (a custom datatype where the tag is not predefined):
        # multiplying a segment of that edge is refused, and refused before any count is divided
        idx = [j for j, ln in enumerate(lines) if ln.split("\t")[0] in (("C",) if version == "gfa1" else ("E",))
               and not any(t[:2] in ("KC", "RC", "FC") for t in ln.split("\t")[5:])]
        if idx:
            j = bc.choice(idx)
            lines = lines[:j] + [lines[j] + ("\tKC:Z:many" if version == "gfa1" else "\tRC:f:10.5")] + lines[j + 1:]
            badcount = True
    order, mode = hist.schedule(sr, lines)
    hr = streams.get("history")
    segs = doc["segs"]
    factor = hr.choice([0, 1, -1, 2, 2, 3, 3, 4])
    distribute = hr.choice([None, None, "off", "auto", "equal", "L", "R"])
    seg = hr.choice(segs)
    copy_names = None
    bad_names = False
    if factor >= 2 and hr.random() < 0.4:
        copy_names = ["cp%d" % j for j in range(factor - 1)]
        if hr.random() < 0.25:
            # a requested name is in use, or given twice: the call is refused and nothing is changed
            j = hr.randrange(len(copy_names))
            copy_names[j] = hr.choice(segs) if (len(copy_names) == 1 or hr.random() < 0.6) else copy_names[j - 1]
            bad_names = True
    extra = []
    if hr.random() < 0.3:
        # automatic names that collide with existing segments
        extra.append("S\t%s*2\t*" % seg if version == "gfa1" else "S\t%s*2\t5\t*" % seg)
    elif hr.random() < 0.3:
        # ... or with the identifier of a line that is not a segment (the namespace is shared)
        nth = hr.choice([2, 2, 3])
        if version == "gfa1":
            extra.append("P\t%s*%d\t%s+\t*" % (seg, nth, seg))
        else:
            extra.append(hr.choice(["U\t%s*%d\t%s", "O\t%s*%d\t%s+"]) % (seg, nth, seg))
    notseg = None
    if not extra and hr.random() < 0.15:
        if version == "gfa2" and hr.random() < 0.6:
            # a set mentions, ahead of any definition, the identifier the first copy would get
            extra.append("U\tuq7\t%s %s*%d" % (seg, seg, hr.choice([2, 2, 3])))
        else:
            # the identifier of a line that is not a segment is given instead of a segment
            extra.append("P\tnsq\t%s+\t*" % seg if version == "gfa1" else hr.choice(["U\tnsq\t%s", "O\tnsq\t%s+"]) % seg)
            notseg = "nsq"
    ops = [{"op": "new", "vlevel": cfg.choice([0, 1, 1, 2, 3]), "version": version}]
    for ln in order + extra:
        ops.append({"op": "add", "line": ln, "as": "str"})
    track = hr.random() < 0.2
    ops.append({"op": "multiply", "seg": notseg or seg, "notseg": bool(notseg), "factor": factor, "track": track, "badcount": badcount, "distribute": distribute, "copy_names": copy_names,
                "by": hr.choice(["name", "line"]), "bad_names": bad_names})
    return {"cfg": {"order": mode, "version": version}, "ops": ops}


def parse(lines, version="gfa1"):
    """-> S: name -> ['S', name, sequence, tags...]; E: edge tuples shaped like GFA1 lines
    ['L'|'C'|'I', a, oa, b, ob, (pos,) detail, tags...] (for GFA2 'detail' holds the intervals and alignment)"""
    S, E = {}, []
    for ln in lines:
        f = ln.split("\t")
        if version == "gfa2":
            if f[0] == "S":
                S[f[1]] = ["S", f[1], f[3] + "/" + f[2]] + f[4:]
            elif f[0] == "E":
                from ..model import classify_edge
                t, k1, k2 = classify_edge(f[2][-1], f[4], f[5], f[3][-1], f[6], f[7])
                kind = {"dovetail": "L", "containment": "C", "internal": "I"}[t]
                detail = "|".join(f[4:9])
                # (the edge identifier is not part of the edge's identity here: copies get none)
                E.append([kind, f[2][:-1], f[2][-1], f[3][:-1], f[3][-1]] + (["0"] if kind == "C" else []) + [detail] + f[9:] +
                         (["k1=" + k1, "k2=" + k2]))
            continue
        if f[0] == "S":
            S[f[1]] = f
        elif f[0] in ("L", "C"):
            E.append(f)
    return S, E


def edge_key(f, rename=None):
    """canonical key of an L/C line without count tags and ID; rename: dict old->new"""
    r = rename or {}
    npos = 6 if f[0] == "C" else 5
    pos = list(f[1:1 + npos])
    pos[0] = r.get(pos[0], pos[0])
    pos[2] = r.get(pos[2], pos[2])
    tags = sorted(t for t in f[1 + npos:] if t[:2] not in ("RC", "FC", "KC", "ID") and not t.startswith(("k1=", "k2=")))
    if f[0] == "L" and "|" not in pos[4]:
        a, b = gtext.link_forms(pos)
        pos = list(min(a, b))
    return tuple([f[0]] + pos + tags)


def counts(f, npos):
    return dict((t[:2], int(t[5:])) for t in f[1 + npos:] if t[:2] in ("RC", "FC", "KC") and t[3] == "i")


def run(scn, st):
    w = World(st)
    for op in scn["ops"]:
        if op["op"] != "multiply":
            out = w.apply(op)
            if w.gfa is None:
                return
            continue
        g = w.gfa
        st.step()
        st.count("op.multiply")
        virt = [l for l in ob.reachable_lines(g) if l.virtual]
        if any(not isinstance(l, gfapy.line.Unknown) for l in virt):
            return
        mentioned = set(str(l.name) for l in virt)      # identifiers only mentioned so far (by a set)
        seg, k = op["seg"], op["factor"]
        if op.get("notseg"):
            # not a segment: refused whatever the factor (1 does nothing), nothing changes
            pre_obs = ob.observe(g)
            o = core.call(g.multiply, seg, k)
            st.count("probe.not_a_segment")
            st.count("oracle.not_a_segment")
            if k != 1 and (o.ok or o.kind != "gfapy"):
                raise core.Violation("non-segment-multiplied", "multiply(%r, %d) with the identifier of a %s line %s" %
                                     (seg, k, g.line(seg).record_type if g.line(seg) is not None else "removed",
                                      "returned" if o.ok else "raised " + o.excname), factor=min(k, 2))
            if ob.observe(g) != pre_obs:
                raise core.Violation("refused-multiply-changed", "multiply(%r, %d) of a line that is not a segment "
                                     "changed the Gfa" % (seg, k), factor=min(k, 2))
            continue
        if g.segment(seg) is None:
            return
        version = scn["cfg"].get("version", "gfa1")
        pre_lines = [x for x in ob.text_lines(g) if not x.startswith("?record_type?")]
        pre_obs = ob.observe(g)
        pre_names = set(x for x in g.names if isinstance(x, str))
        S0, E0 = parse(pre_lines, version)
        # internal alignments are neither dovetails nor containments: they stay with the original only
        mine = [f for f in E0 if (f[1] == seg or f[3] == seg) and f[0] != "I"]
        others = [f for f in E0 if not (f[1] == seg or f[3] == seg) or f[0] == "I"]
        if any(f[1] == f[3] == seg for f in mine):
            st.count("probe.self_link")
        if any(f[0] == "C" for f in mine):
            st.count("probe.containment")
        if any(any(t.startswith("ID:") for t in f) for f in mine):
            st.count("probe.id_tagged_edge")
        keys = [edge_key(f)[1:5] for f in mine if f[0] == "L"]
        if len(set(keys)) < len(keys):
            st.count("probe.parallel_links")
        if "*" in seg:
            st.count("probe.name_with_star")
        kw = {}
        if op["distribute"] is not None:
            kw["distribute"] = op["distribute"]
        if op["copy_names"] is not None:
            kw["copy_names"] = list(op["copy_names"])
            st.count("probe.given_names")
        if op.get("track"):
            # the origin of the copies is recorded in a tag (of the copies and of the original)
            kw["track_origin"] = True
            st.count("probe.track_origin")
        target = seg if op["by"] == "name" else g.segment(seg)
        o = core.call(g.multiply, target, k, **kw)
        st.count("oracle.post_state")
        st.state(digest([sorted(edge_key(f) for f in mine), k, op["distribute"]]))
        post_lines = [x for x in ob.text_lines(g) if not x.startswith("?record_type?")]
        if k < 0:
            st.count("probe.negative")
            if o.ok or o.excname != "ArgumentError":
                raise core.Violation("negative-factor-accepted", "multiply(%s, %d) %s" %
                                     (seg, k, "returned" if o.ok else "raised " + o.excname), factor="neg")
            if ob.observe(g) != pre_obs:
                raise core.Violation("negative-factor-changed", "refused multiply changed the Gfa", factor="neg")
            continue
        if op.get("badcount") and k >= 2 and any(any(t in ("KC:Z:many", "RC:f:10.5") for t in f) for f in mine):
            # a count of one of the segment's edges cannot be divided
            st.count("probe.count_not_integer")
            if o.ok:
                return      # (how such a count is divided is not stated)
            if ob.observe(g) != pre_obs:
                from .c08 import diff_obs
                raise core.Violation("refused-multiply-changed", "multiply(%s, %d) raised %s (a count of an edge is not an "
                                     "integer) but changed the Gfa: %s" % (seg, k, o.excname, diff_obs(pre_obs, ob.observe(g))[:300]),
                                     factor=min(k, 2), what="counts")
            continue
        if op.get("bad_names"):
            st.count("probe.bad_copy_names")
            if o.ok:
                raise core.Violation("bad-names-accepted", "multiply(%s, %d, copy_names=%r) with a name in use / repeated returned" %
                                     (seg, k, op["copy_names"]), factor=min(k, 2))
            if ob.observe(g) != pre_obs:
                raise core.Violation("refused-multiply-changed", "multiply(%s, %d, copy_names=%r) raised %s but changed the Gfa" %
                                     (seg, k, op["copy_names"], o.excname), factor=min(k, 2))
            continue
        if not o.ok:
            raise core.Violation("multiply-raised", "multiply(%s, %d, %r) raised %s: %s" %
                                 (seg, k, kw, o.excname, str(o.exc)[:300]), exc=o.excname, frame=o.frame,
                                 factor=min(k, 2), dist=op["distribute"])
        if k == 1:
            st.count("probe.factor1")
            if ob.observe(g) != pre_obs:
                raise core.Violation("factor1-changed", "multiply by 1 changed the Gfa", factor=1)
            continue
        if k == 0:
            st.count("probe.factor0")
            m = Doc(version, pre_lines)
            m.remove([m.by_name(seg)])
            if gtext.canon_doc(post_lines, version) != m.canon():
                raise core.Violation("factor0-not-rm", "multiply by 0 is not the removal of the segment: %r" %
                                     [x for x in gtext.canon_doc(post_lines, version) if x not in m.canon()][:3], factor=0)
            continue
        st.count("probe.factor_ge2")
        try:
            inv.closed_symmetric(g)
            inv.registry_coherent(g)
        except inv.Bad as b:
            raise core.Violation("multiply-broke-graph", "after multiply(%s,%d): %s" % (seg, k, b.detail), clause2=b.clause)
        S1, E1 = parse(post_lines, version)
        new = sorted(set(S1) - set(S0))
        if len(new) != k - 1:
            raise core.Violation("copies-count", "multiply(%s,%d): new segments %r" % (seg, k, new), factor=min(k, 2))
        if op["copy_names"] is not None and new != sorted(op["copy_names"]):
            raise core.Violation("copy-names", "requested names %r, got %r" % (op["copy_names"], new))
        if op["copy_names"] is None and any(n in S0 or n in pre_names for n in new):
            raise core.Violation("copy-names-clash", "automatic names %r clash" % new)
        if mentioned:
            st.count("probe.mentioned_identifier")
            if op["copy_names"] is None and any(n in mentioned for n in new):
                raise core.Violation("copy-names-clash", "automatic names %r: %r is mentioned by a set of the document "
                                     "(the copy became a member of it)" % (new, sorted(mentioned & set(new))), what="mentioned")
        if op["copy_names"] is None and any(("%s*%d" % (seg, nth)) in pre_names - set(S0) for nth in range(2, k + 1)):
            st.count("probe.auto_names_collision_nonsegment")
        if version == "gfa2":
            st.count("probe.gfa2_graph")
        if op["copy_names"] is None and ("%s*2" % seg.split("*")[0]) in S0:
            st.count("probe.auto_names_collision")
        copies = [seg] + new
        # ---- the segments: identical sequence and tags, counts floor-divided
        c0 = counts(S0[seg], 2)
        for c in copies:
            f = S1[c]
            if f[2] != S0[seg][2]:
                raise core.Violation("copy-sequence", "copy %s has sequence %r" % (c, f[2]))
            t0 = sorted(t for t in S0[seg][3:] if t[:2] not in ("RC", "FC", "KC"))
            t1 = sorted(t for t in f[3:] if t[:2] not in ("RC", "FC", "KC"))
            if op.get("track") and not any(t.startswith("or:") for t in t0):
                if "or:Z:%s" % seg not in t1:
                    raise core.Violation("origin-not-tracked", "copy %s of %s lacks the origin tag: %r" % (c, seg, t1))
                t1 = [t for t in t1 if t != "or:Z:%s" % seg]
            if t0 != t1:
                raise core.Violation("copy-tags", "copy %s has tags %r, original %r" % (c, t1, t0))
            if c0:
                st.count("probe.counts_divided")
            if counts(f, 2) != dict((kk, v // k) for kk, v in c0.items()):
                raise core.Violation("segment-counts", "copy %s counts %r, original %r / %d" % (c, counts(f, 2), c0, k),
                                     what="segment")
        # ---- the rest of the graph is untouched
        for f in others:
            if f not in E1:
                raise core.Violation("untouched-edge-changed", "edge %r not involving %s changed" % ("\t".join(f), seg))
        for s in S0:
            if s != seg and S1.get(s) != S0[s]:
                raise core.Violation("untouched-segment-changed", "segment %s changed" % s)
        # ---- edges of the copies
        dist_end = None
        d = op["distribute"]
        if d in ("L", "R", "auto", "equal"):
            st.count("probe.distribute_" + d)
        for c in copies:
            got = sorted(edge_key(f) for f in E1 if (f[1] == c or f[3] == c) and f[0] != "I")
            want_all = sorted(edge_key(f, {seg: c}) for f in mine)
            if d in (None, "off"):
                if got != want_all:
                    raise core.Violation("copy-edges-differ", "copy %s: edges %r, original's (renamed) %r" %
                                         (c, [x for x in got if x not in want_all][:2],
                                          [x for x in want_all if x not in got][:2]), dist="off")
            else:
                # no link is invented
                for e in got:
                    if e not in want_all:
                        raise core.Violation("link-invented", "copy %s has %r which the original did not have" % (c, e),
                                             dist=d)
            # edge counts divided (edges equal up to their count tags are matched as multisets)
            groups_got, groups_want = {}, {}
            for f in E1:
                if (f[1] == c or f[3] == c) and f[0] != "I":
                    npos = 6 if f[0] == "C" else 5
                    groups_got.setdefault(edge_key(f), []).append(sorted(counts(f, npos).items()))
            for x in mine:
                npos = 6 if x[0] == "C" else 5
                groups_want.setdefault(edge_key(x, {seg: c}), []).append(
                    sorted((kk, v // k) for kk, v in counts(x, npos).items()))
            for key, got_counts in groups_got.items():
                want_counts = groups_want.get(key)
                if want_counts is None:
                    continue
                if d in (None, "off"):
                    bad_counts = sorted(got_counts) != sorted(want_counts)
                else:
                    bad_counts = any(gc not in want_counts for gc in got_counts)
                if bad_counts:
                    raise core.Violation("edge-counts", "edges %r of copy %s: counts %r, originals divided by %d: %r" %
                                         (key, c, got_counts, k, want_counts), what="edge")
        if d not in (None, "off"):
            # every former neighbour end stays linked to at least one copy; containments and the links of
            # the other end are full copies
            ends = {}
            for f in mine:
                if f[0] == "L" and f[1] == f[3]:
                    # a link of the segment with itself: some copy still has its copy of it
                    if not any(edge_key(f, {seg: c}) in [edge_key(x) for x in E1] for c in copies):
                        raise core.Violation("neighbour-lost", "after multiply(%s,%d,distribute=%s) no copy keeps the "
                                             "self-link %r" % (seg, k, d, "\t".join(f)), dist=d)
                    continue
                if f[0] != "L" or f[1] == f[3]:
                    continue
                kk = [t for t in f if t.startswith(("k1=", "k2="))]
                if kk:
                    e1, e2 = kk[0][-1], kk[1][-1]
                    e_mine, nb = (e1, (f[3], e2)) if f[1] == seg else (e2, (f[1], e1))
                elif f[1] == seg:
                    e_mine = "R" if f[2] == "+" else "L"
                    nb = (f[3], "L" if f[4] == "+" else "R")
                else:
                    e_mine = "L" if f[4] == "+" else "R"
                    nb = (f[1], "R" if f[2] == "+" else "L")
                ends.setdefault(e_mine, []).append((nb, f))
            for e_mine, lst in ends.items():
                for nb, f in lst:
                    linked = 0
                    for c in copies:
                        if edge_key(f, {seg: c}) in [edge_key(x) for x in E1]:
                            linked += 1
                    if linked == 0:
                        raise core.Violation("neighbour-lost", "after multiply(%s,%d,distribute=%s) the neighbour end %r "
                                             "is linked to no copy" % (seg, k, d, nb), dist=d)
            for c in copies:
                for f in mine:
                    if f[0] == "C" and edge_key(f, {seg: c}) not in [edge_key(x) for x in E1]:
                        raise core.Violation("containment-lost", "copy %s lacks containment %r" % (c, "\t".join(f)), dist=d)
        names = g.names
        if len(set(names)) != len(names):
            raise core.Violation("names-not-unique", "names %r" % names)
        # the copies are copies: a value edited inside one of them (a nested JSON value) stays where it is
        lines_c = [g.segment(c) for c in copies]
        if all(x is not None for x in lines_c) and len(lines_c) >= 2:
            for tname in list(lines_c[1].tagnames):
                val = core.call(lines_c[1].get, tname)
                if not val.ok or not isinstance(val.value, (list, dict)) or isinstance(val.value, gfapy.NumericArray):
                    continue
                nested = [x for x in (val.value.values() if isinstance(val.value, dict) else val.value)
                          if isinstance(x, (list, dict))]
                st.count("probe.copy_value_edited_in_place")
                before = [ob.line_text(x) for j_, x in enumerate(lines_c) if j_ != 1]

                def edit():
                    if nested:
                        (nested[0].append(99) if isinstance(nested[0], list) else nested[0].update({"zz": 1}))
                    elif isinstance(val.value, list):
                        val.value.append(98)
                    else:
                        val.value["zz"] = 1
                if core.call(edit).ok:
                    after = [ob.line_text(x) for j_, x in enumerate(lines_c) if j_ != 1]
                    if after != before:
                        raise core.Violation("copies-share-values", "editing the value of tag %s inside copy %s changed "
                                             "%r into %r" % (tname, copies[1], before, after))
                break


from .c02 import simplify  # noqa: E402,F401
