"""C14 — linear-path merging spells the right sequence and keeps the rest intact.

Workload-driven (stated in DESIGN §6/C14): graphs from a shape generator
(chains of mixed orientations, branching and dead-end junctions, cycles,
self-links and hairpins on chain ends, several chains at one junction, with and
without sequences), delivered in a scheduled order (the operation walks
segment_names and per-end link lists, both delivery ordered), optionally after
renames/removals; then linear_paths(), merge_linear_paths(), and again.
The model *checks the post-state* rather than predicting free choices
(direction in which a chain is spelled).
"""
import gfapy
from .. import gen as G, hist, core, gtext, inv
from ..model import Doc, UnionFind
from ..world import World
from ..rng import digest
from .. import observe as ob
from ..gtext import rc

PROP = "C14"
RUNS = {"quick": 4000, "thorough": 400000}
WALL = {"quick": 280, "thorough": 3500}
RULE = ("one run = shaped GFA1 graph (match-only / '*' overlaps) + scheduled delivery + optional "
        "mutations + merge_linear_paths twice; distinct = distinct (end-graph digest, order) pairs")
PROBES = ["gfa2_graph", "mixed_sequences", "chain_ge3", "mixed_orientation_chain", "branching_junction", "cycle", 
          "hairpin_on_end", "two_chains_one_junction", "without_sequences", "merged_something", "merged_name_in_use",
          "nothing_to_merge", "after_mutation", "idempotent_checked", "star_overlap", "other_lines_present",
          "twin_unnamed_edges", "member_of_unknown_length", "unmergeable_chain"]


def oend(o, out=True):
    """exit end of an oriented segment (out) or its entry end"""
    if out:
        return "R" if o == "+" else "L"
    return "L" if o == "+" else "R"


def gen_shape(rng, k):
    """-> lines of a GFA1 graph built from chains + junction links"""
    nchains = rng.randint(1, 3)
    names = ["a", "b", "c", "d", "e", "f", "g", "h", "i", "j", "k", "l", "m", "n"]
    rng.shuffle(names)
    segs = []
    links = []      # (from, fo, to, to_o, cigar)
    chains = []
    with_seq = rng.choice([True, True, True, False, "mixed"])
    version = k.get("version", "gfa1")
    ovstyle = rng.choice(["match", "star", "mixed"])

    def ov():
        s = ovstyle if ovstyle != "mixed" else rng.choice(["match", "star"])
        if s == "star":
            return "*"
        n = rng.choice([0, 1, 1, 2, 3])
        if version == "gfa1" and n >= 1 and rng.random() < 0.2:
            # '=' (sequence match) is merged over like M
            return rng.choice(["%d=" % n, "1=%dM" % (n - 1) if n > 1 else "1=", "%dM1=" % (n - 1) if n > 1 else "1="])
        return "%dM" % n
    for _ in range(nchains):
        n = rng.randint(1, 5)
        if len(names) < n:
            break
        ch = [(names.pop(), rng.choice("+-")) for _ in range(n)]
        chains.append(ch)
        segs += [c[0] for c in ch]
        for x, y in zip(ch, ch[1:]):
            if rng.random() < 0.5:
                links.append((x[0], x[1], y[0], y[1], ov()))
            else:
                # written in the complement form
                links.append((y[0], gtext.inv(y[1]), x[0], gtext.inv(x[1]), ov()))
        if n >= 3 and rng.random() < 0.15:
            links.append((ch[-1][0], ch[-1][1], ch[0][0], ch[0][1], ov()))     # cycle
    n_chain_links = len(links)
    # junction / extra links between random ends
    for _ in range(rng.randint(0, 5)):
        a, b = rng.choice(segs), rng.choice(segs)
        r = rng.random()
        if a == b and r > k.get("p_self", 0.2):
            continue
        links.append((a, rng.choice("+-"), b, rng.choice("+-"), ov()))
    # drop duplicates modulo complement (merely compatible links are not valid documents)
    seen = set()
    ulinks = []
    for l in links:
        key = min((l[0], l[1], l[2], l[3]), (l[2], gtext.inv(l[3]), l[0], gtext.inv(l[1])))
        if key in seen:
            continue
        seen.add(key)
        ulinks.append(l)
    # GFA2 only: identical parallel edges without identifier (GFA1 refuses an equal link)
    twin = None
    if version == "gfa2" and rng.random() < 0.3:
        cand = [l for l in ulinks if l in links[n_chain_links:]]
        if cand:
            twin = rng.choice(cand)
    lines = []
    seglen = {}
    for s in segs:
        n = rng.randint(5, 12)
        seglen[s] = n
        has = with_seq is True or (with_seq == "mixed" and rng.random() < 0.6)
        if version == "gfa2":
            # (some with the GFA1-style LN tag, which is an ordinary tag here)
            lines.append("S\t%s\t%d\t%s%s" % (s, n, G.rand_seq(rng, n) if has else "*",
                                              "\tLN:i:%d" % n if rng.random() < 0.2 else ""))
        elif has:
            lines.append("S\t%s\t%s" % (s, G.rand_seq(rng, n)))
        else:
            lines.append("S\t%s\t*\tLN:i:%d" % (s, n) if rng.random() < (0.6 if with_seq is False else 0.8) else "S\t%s\t*" % s)
    for j, l in enumerate(ulinks):
        if version == "gfa1":
            lines.append("\t".join(["L"] + list(l)))
        else:
            a, oa, b, ob, c = l
            n = 0 if c == "*" else int(c[:-1])
            la, lb = seglen[a], seglen[b]
            b1, e1 = (la - n, la) if oa == "+" else (0, n)
            b2, e2 = (0, n) if ob == "+" else (lb - n, lb)
            lines.append("\t".join(["E", "e%d" % j if (rng.random() < 0.7 and l is not twin) else "*", a + oa, b + ob,
                                    G.pos_str(b1, la), G.pos_str(e1, la), G.pos_str(b2, lb), G.pos_str(e2, lb), c]))
            if l is twin:
                lines.append(lines[-1])
    if version == "gfa2":
        if rng.random() < 0.3 and len(segs) >= 2:
            a, b = rng.sample(segs, 2)
            lines.append("E\t*\t%s+\t%s+\t1\t3\t0\t%d$\t*" % (a, b, seglen[b]))     # a containment
        if rng.random() < 0.3:
            lines.append("U\tuu\t%s" % rng.choice(segs))
        if rng.random() < 0.15 and chains:
            # a set mentions, ahead of any definition, the name a merged chain would get: the name is taken
            ch = rng.choice(chains)
            nm = "_".join(x[0] for x in (ch if rng.random() < 0.5 else list(reversed(ch))))
            if len(ch) >= 2 and nm not in segs:
                lines.append("U\tbin\t%s" % nm)
        return lines
    # a few other lines (containment, path) to check that untouched lines stay / touched ones go
    if rng.random() < 0.4 and len(segs) >= 2:
        a, b = rng.sample(segs, 2)
        lines.append("C\t%s\t+\t%s\t+\t0\t*" % (a, b))
    if rng.random() < 0.3 and ulinks:
        l = rng.choice(ulinks)
        lines.append("P\tpth\t%s%s,%s%s\t*" % (l[0], l[1], l[2], l[3]))
    if rng.random() < 0.15 and chains:
        # an unrelated segment that has the name the merged chain would get
        ch = rng.choice(chains)
        nm = "_".join(x[0] for x in (ch if rng.random() < 0.5 else list(reversed(ch))))
        if nm not in segs:
            lines.append("S\t%s\t*" % nm)
    return lines


def gen(streams, tier, i):
    cfg = streams.get("config")
    version = cfg.choice(["gfa1", "gfa1", "gfa2"])
    k = {"p_self": cfg.choice([0.0, 0.0, 0.3]), "version": version}
    lines = gen_shape(streams.get("document"), k)
    sr = streams.get("schedule")
    order, mode = hist.schedule(sr, lines)
    ops = [{"op": "new", "vlevel": cfg.choice([0, 1, 1, 2, 3]), "version": cfg.choice([None, version])}]
    for ln in order:
        ops.append({"op": "add", "line": ln, "as": "str"})
    ops.append({"op": "flush"})
    hr = streams.get("history")
    if hr.random() < 0.3:
        segs = [ln.split("\t")[1] for ln in lines if ln.startswith("S\t")]
        for _ in range(hr.randint(1, 2)):
            if hr.random() < 0.5:
                ops.append({"op": "rename", "id": hr.choice(segs), "new": hr.choice(["zq", "zr", "zs", "zt"])})
            else:
                ops.append({"op": "rm", "id": hr.choice(segs), "how": "rm"})
    if version == "gfa1" and hr.random() < 0.25:
        # a trial path over segments that no link joins (gfapy keeps placeholder links for its steps) is added and
        # removed again: nothing of it is left when the chains are asked for
        segs = [ln.split("\t")[1] for ln in lines if ln.startswith("S\t")]
        if len(segs) >= 2:
            a_, b_ = hr.sample(segs, 2)
            ops.append({"op": "add", "line": "P\ttrial\t%s%s,%s%s\t*" % (a_, hr.choice("+-"), b_, hr.choice("+-")), "as": "str"})
            if hr.random() < 0.5:
                ops.append({"op": "linear_paths_probe"})
            ops.append({"op": "rm", "id": "trial", "how": hr.choice(["rm", "disconnect"])})
    if version == "gfa1" and hr.random() < 0.12:
        # one link of the document gets an overlap that cannot be merged over (an insertion): if it joins a chain,
        # merge_linear_paths() refuses, and refuses before it has merged any other chain
        li = [j for j, o_ in enumerate(ops) if o_["op"] == "add" and o_["line"].startswith("L\t") and o_["line"].split("\t")[5] != "*"]
        if li:
            j = hr.choice(li)
            f = ops[j]["line"].split("\t")
            f[5] = "1M1I1M"
            ops[j] = dict(ops[j], line="\t".join(f))
            ops.append({"op": "linear_paths"})
            ops.append({"op": "merge", "unmergeable": "\t".join(f)})
            return {"cfg": {"order": mode, "version": version}, "ops": ops}
    ops.append({"op": "linear_paths"})
    ops.append({"op": "merge"})
    ops.append({"op": "merge_again"})
    return {"cfg": {"order": mode, "version": version}, "ops": ops}


# ------------------------------------------------------------------ model on the written text
class EndGraph:
    def __init__(self, text_lines, version="gfa1"):
        self.seq = {}
        self.length = {}
        self.links = []     # (a, ea, b, eb, cigar, raw_line)
        self.other = []
        self.version = version
        for ln in text_lines:
            f = ln.split("\t")
            if version == "gfa2":
                if f[0] == "S":
                    self.seq[f[1]] = f[3]
                    self.length[f[1]] = int(f[2])
                elif f[0] == "E":
                    from ..model import classify_edge
                    t, k1, k2 = classify_edge(f[2][-1], f[4], f[5], f[3][-1], f[6], f[7])
                    if t == "dovetail":
                        self.links.append((f[2][:-1], k1[-1], f[3][:-1], k2[-1], f[8], ln))
                    else:
                        self.other.append(ln)
                elif f[0] not in ("H",) and not ln.startswith("#"):
                    self.other.append(ln)
                continue
            if f[0] == "S":
                self.seq[f[1]] = f[2]
                ln_ = [x for x in f[3:] if x.startswith("LN:i:")]
                self.length[f[1]] = len(f[2]) if f[2] != "*" else (int(ln_[0][5:]) if ln_ else None)
            elif f[0] == "L":
                self.links.append((f[1], oend(f[2], True), f[3], oend(f[4], False), f[5], ln))
            elif f[0] not in ("H",) and not ln.startswith("#"):
                self.other.append(ln)
        # identifiers of lines that are not segments (paths, named edges, ID-tagged links, groups, gaps)
        self.other_names = set()
        for ln in text_lines:
            f = ln.split("\t")
            if f[0] in ("U", "O") and len(f) > 2:
                # identifiers a group mentions are in use, defined or not (only groups that list no segment are
                # counted: a group over a chain member goes away with the merge, and its mentions with it)
                its = [it.rstrip("+-") if f[0] == "O" else it for it in f[2].split(" ")]
                if not any(it in self.seq for it in its):
                    self.other_names.update(its)
            if f[0] in ("P", "E", "G", "O", "U") and len(f) > 1 and f[1] != "*":
                self.other_names.add(f[1])
            for t in f:
                if t.startswith("ID:Z:"):
                    self.other_names.add(t[5:])

    def deg(self):
        d = {}
        for a, ea, b, eb, c, _ in self.links:
            d[(a, ea)] = d.get((a, ea), 0) + 1
            d[(b, eb)] = d.get((b, eb), 0) + 1
        return d

    def linear_joins(self):
        d = self.deg()
        out = []
        for l in self.links:
            a, ea, b, eb = l[:4]
            if (a, ea) != (b, eb) and d[(a, ea)] == 1 and d[(b, eb)] == 1:
                out.append(l)
        return out

    def chains(self):
        """maximal chains as lists of oriented segments [(name, orient)], length >= 2;
        -> (paths, cycles)"""
        joins = self.linear_joins()
        nxt = {}
        for a, ea, b, eb, c, _ in joins:
            nxt[(a, ea)] = (b, eb, c)
            nxt[(b, eb)] = (a, ea, c)
        segs_in = set(x[0] for x in nxt)
        seen = set()
        paths, cycles = [], []
        other = {"L": "R", "R": "L"}
        # start from chain ends: a segment with a join on exactly one end
        starts = [s for s in sorted(segs_in) if ((s, "L") in nxt) != ((s, "R") in nxt)]
        for s in starts:
            if s in seen:
                continue
            # leave through the joined end
            e = "L" if (s, "L") in nxt else "R"
            walk = [(s, "+" if e == "R" else "-")]
            cuts = []
            seen.add(s)
            cur = (s, e)
            while cur in nxt:
                b, eb, c = nxt[cur]
                if b in seen:
                    break
                seen.add(b)
                walk.append((b, "+" if eb == "L" else "-"))
                cuts.append(c)
                cur = (b, other[eb])
            paths.append((walk, cuts))
        for s in sorted(segs_in):
            if s not in seen:
                # pure cycle
                cyc = [s]
                seen.add(s)
                cur = (s, "R")
                while cur in nxt:
                    b, eb, c = nxt[cur]
                    if b in seen:
                        break
                    seen.add(b)
                    cyc.append(b)
                    cur = (b, other[eb])
                cycles.append(cyc)
        return paths, cycles

    def components(self):
        uf = UnionFind(list(self.seq))
        for a, ea, b, eb, c, _ in self.links:
            if a in self.seq and b in self.seq:
                uf.union(a, b)
        return uf.classes()

    def canon_links(self):
        out = []
        for a, ea, b, eb, c, _ in self.links:
            x, y = sorted([(a, ea), (b, eb)])
            out.append((x, y, c if c == "*" else min(c, gtext.cigar_complement(c))))
        return sorted(out)


def spell(walk, cuts, eg):
    seqs = []
    for i, (s, o) in enumerate(walk):
        q = eg.seq[s]
        if q == "*":
            return "*"
        q = q if o == "+" else rc(q)
        if i > 0:
            c = cuts[i - 1]
            n = 0 if c == "*" else gtext.cigar_reflen(c)
            q = q[n:]
        seqs.append(q)
    return "".join(seqs)


def run(scn, st):
    w = World(st)
    mutated = False
    pre = None
    for n, op in enumerate(scn["ops"]):
        k = op["op"]
        if k == "new":
            w.apply(op)
            continue
        g = w.gfa
        if g is None:
            return
        if k in ("add", "flush", "rename", "rm"):
            out = w.apply(op)
            if k in ("rename", "rm") and out.ok:
                mutated = True
            continue
        st.step()
        st.count("op." + k)
        version = scn["cfg"].get("version", "gfa1")
        if g.version != version:
            return
        if k == "linear_paths_probe":
            core.call(g.linear_paths)
            continue
        virt = [l for l in ob.reachable_lines(g) if l.virtual]
        real_text = [x for x in ob.text_lines(g) if "co:Z:GFAPY_virtual_line" not in x and not x.startswith("?record_type?")]
        if virt:
            # placeholders are legitimate only while the document mentions identifiers it does not define; only
            # sets may do so here (placeholders of unknown type), everything else makes the run unspecified
            doc = Doc(version, real_text)
            if doc.dangling() and any(not isinstance(l, gfapy.line.Unknown) for l in virt):
                return
            st.count("probe.placeholders_present")
        if k == "linear_paths":
            pre = EndGraph(real_text, version)
            pre.valid = core.call(g.validate).ok
            if mutated:
                st.count("probe.after_mutation")
            paths, cycles = pre.chains()
            probes(pre, paths, cycles, st)
            o = core.call(g.linear_paths)
            st.count("oracle.linear_paths")
            if not o.ok:
                raise core.Violation("linear-paths-raised", "linear_paths() raised %s: %s" % (o.excname, str(o.exc)[:200]),
                                     exc=o.excname, frame=o.frame)
            got = sorted(sorted(se.name if hasattr(se, "name") else str(se)[:-1] for se in p) for p in o.value)
            want = sorted(sorted(x[0] for x in wk) for wk, _c in paths)
            # pure cycles: where they are cut (and whether they are reported) is left open
            cyc = [sorted(c) for c in cycles]
            got_nc = [p for p in got if p not in cyc]
            st.state(digest([pre.canon_links(), scn["cfg"].get("order")]))
            if got_nc != want or any(got.count(p) > 1 for p in got):
                raise core.Violation("linear-paths-differ", "linear_paths()=%r, maximal chains of the document: %r (cycles %r)" %
                                     (got, want, cyc), what="chains")
            # each path is reported in walking order, in one of the two directions
            for p in o.value:
                names = [se.name for se in p]
                for wk, _c in paths:
                    wn = [x[0] for x in wk]
                    if sorted(wn) == sorted(names) and names not in (wn, wn[::-1]):
                        raise core.Violation("linear-path-order", "linear path %r is not the chain %r in either direction" %
                                             (names, wn), what="order")
            # linear_path(s), asked for single segments one after the other (by name and by line, some twice):
            # the maximal chain s belongs to, in one of the two directions; nothing longer than s alone otherwise
            incyc = set(x for c in cycles for x in c)
            segnames = sorted(l.name for l in g.segments)
            for j, sn in enumerate(segnames + segnames[:2]):
                if sn in incyc:
                    continue
                arg = sn if j % 2 == 0 else g.segment(sn)
                o2 = core.call(g.linear_path, arg)
                st.count("oracle.linear_path_single")
                if not o2.ok:
                    raise core.Violation("linear-paths-raised", "linear_path(%r) raised %s: %s" % (sn, o2.excname, str(o2.exc)[:200]),
                                         exc=o2.excname, frame=o2.frame)
                names = [se.name for se in o2.value]
                mine = [[x[0] for x in wk] for wk, _c in paths if sn in [x[0] for x in wk]]
                if mine:
                    if names not in (mine[0], mine[0][::-1]):
                        raise core.Violation("linear-path-single", "linear_path(%r)=%r (call %d of this step), the maximal chain is %r" %
                                             (sn, names, j + 1, mine[0]), what="single")
                elif len(names) > 1:
                    raise core.Violation("linear-path-single", "linear_path(%r)=%r but %r is on no chain" % (sn, names, sn),
                                         what="single-none")
        elif k == "merge":
            if pre is None:
                return
            paths, cycles = pre.chains()
            before_obs = ob.text_lines(g)
            # the caller has used the sequence utilities before, with other options (they keep nothing)
            for q in sorted(set(pre.seq.values())):
                if q != "*":
                    core.call(gfapy.sequence.rc, q, rna=True)
                    core.call(gfapy.sequence.rc, q, valid=True)
            o = core.call(g.merge_linear_paths)
            st.count("oracle.merge_post_state")
            if op.get("unmergeable"):
                # is the link with the insertion a join of a chain?
                bad_join = any(l[5] == op["unmergeable"] for l in pre.linear_joins())
                fb = op["unmergeable"].split("\t")
                if any(fb[1] in c or fb[3] in c for c in cycles):
                    # (a ring: where it is cut is left open, the link may be the one that is not merged over)
                    return
                if bad_join:
                    st.count("probe.unmergeable_chain")
                    if o.ok:
                        raise core.Violation("unmergeable-merged", "a chain over %r was merged" % op["unmergeable"])
                    if sorted(ob.text_lines(g)) != sorted(before_obs):
                        raise core.Violation("refused-merge-changed", "merge_linear_paths() raised %s (a chain goes over %r) "
                                             "but the graph changed: gone %r, new %r" %
                                             (o.excname, op["unmergeable"],
                                              [x for x in before_obs if x not in ob.text_lines(g)][:3],
                                              [x for x in ob.text_lines(g) if x not in before_obs][:3]))
                    return
                if not o.ok:
                    return
            if not o.ok:
                raise core.Violation("merge-raised", "merge_linear_paths() raised %s: %s" % (o.excname, str(o.exc)[:300]),
                                     exc=o.excname, frame=o.frame,
                                     selfl=any(a == b for a, ea, b, eb, c, _ in pre.links))
            check_merge(g, pre, paths, cycles, st)
            if getattr(pre, "valid", False):
                vv = core.call(g.validate)
                st.count("oracle.valid_after_merge")
                if not vv.ok:
                    raise core.Violation("merge-invalidates", "the graph was valid before merge_linear_paths and is not after: %s: %s" %
                                         (vv.excname, str(vv.exc)[:300]), exc=vv.excname, version=version)
        elif k == "merge_again":
            if pre is None:
                return
            t1 = sorted(ob.text_lines(g))
            d1 = digest(ob.observe(g))
            eg1 = EndGraph(ob.text_lines(g), version)
            p1, c1 = eg1.chains()
            o = core.call(g.merge_linear_paths)
            st.count("probe.idempotent_checked")
            st.count("oracle.idempotent")
            if not o.ok:
                raise core.Violation("merge-raised", "second merge_linear_paths() raised %s: %s" % (o.excname, str(o.exc)[:200]),
                                     exc=o.excname, frame=o.frame, second=True)
            if p1:
                # chains only appear after the first merge when a junction lost its branching by
                # the removal of lines referring to merged segments: not idempotent by construction
                continue
            if sorted(ob.text_lines(g)) != t1 and not c1:
                raise core.Violation("merge-not-idempotent", "merging again changed the graph: %r -> %r" %
                                     ([x for x in t1 if x not in ob.text_lines(g)][:3],
                                      [x for x in ob.text_lines(g) if x not in t1][:3]))


def probes(eg, paths, cycles, st):
    if eg.version == "gfa2":
        st.count("probe.gfa2_graph")
    vals = list(eg.seq.values())
    if any(q == "*" for q in vals) and any(q != "*" for q in vals):
        st.count("probe.mixed_sequences")
    if any(len(wk) >= 3 for wk, _c in paths):
        st.count("probe.chain_ge3")
    if any(len(set(o for _s, o in wk)) == 2 for wk, _c in paths):
        st.count("probe.mixed_orientation_chain")
    d = eg.deg()
    if any(v >= 2 for v in d.values()):
        st.count("probe.branching_junction")
    raws = [l[5] for l in eg.links]
    if len(set(raws)) < len(raws):
        st.count("probe.twin_unnamed_edges")
    if cycles:
        st.count("probe.cycle")
    ends = set()
    for wk, _c in paths:
        ends.add((wk[0][0], oend(wk[0][1], False)))
        ends.add((wk[-1][0], oend(wk[-1][1], True)))
    for a, ea, b, eb, c, _ in eg.links:
        if a == b and ((a, ea) in ends or (b, eb) in ends):
            st.count("probe.hairpin_on_end" if ea == eb else "probe.self_link_on_end")
    if len(paths) >= 2:
        st.count("probe.two_chains_one_junction")
    if any(q == "*" for q in eg.seq.values()):
        st.count("probe.without_sequences")
    if any(c == "*" for *_x, c, _l in eg.links):
        st.count("probe.star_overlap")
    if eg.other:
        st.count("probe.other_lines_present")
    st.count("probe.merged_something" if paths else "probe.nothing_to_merge")


def check_merge(g, pre, paths, cycles, st):
    post = EndGraph(ob.text_lines(g), pre.version)
    try:
        inv.closed_symmetric(g)
    except inv.Bad as b:
        raise core.Violation("merge-broke-closure", "after merge_linear_paths: %s" % b.detail, clause2=b.clause)
    if pre.version == "gfa2":
        # what is written is GFA2: a position equal to the length of its segment carries the '$' (as every such
        # position of the document before the merge did)
        def dollars_ok(eg, lines_):
            for ln in lines_:
                f = ln.split("\t")
                if f[0] == "E" and len(f) > 8:
                    for sid, pp in ((f[2][:-1], f[4:6]), (f[3][:-1], f[6:8])):
                        ln_ = eg.length.get(sid)
                        for p_ in pp:
                            if ln_ is not None and p_.rstrip("$").isdigit() and int(p_.rstrip("$")) == ln_ and not p_.endswith("$"):
                                return ln
            return None
        post_text = [x for x in ob.text_lines(g)]
        if dollars_ok(pre, [l[5] for l in pre.links] + pre.other) is None:
            bad = dollars_ok(post, post_text)
            st.count("oracle.last_positions_marked")
            if bad is not None:
                raise core.Violation("last-position-unmarked", "after merging, %r gives the last position of a segment "
                                     "without '$'" % bad)
    cyc_segs = set(s for c in cycles for s in c)
    mapping = {}      # (seg, end) -> (merged, end)
    merged_names = {}
    for wk, cuts in paths:
        names = [x[0] for x in wk]
        fwd, rev = "_".join(names), "_".join(reversed(names))

        def free(base):
            # a joined name already in use (by a line that is not part of the chain) gets the first free suffix
            nm, k_ = base, 2
            while nm in pre.seq or nm in pre.other_names:      # (other_names: also what sets and paths mention)
                nm = "%s_%d" % (base, k_)
                k_ += 1
            return nm
        if fwd in pre.seq or rev in pre.seq or fwd in pre.other_names or rev in pre.other_names:
            st.count("probe.merged_name_in_use")
        fwd, rev = free(fwd), free(rev)
        if fwd in post.seq:
            mname, walk, wc = fwd, wk, cuts
        elif rev in post.seq:
            mname = rev
            walk = [(s, gtext.inv(o)) for s, o in reversed(wk)]
            wc = list(reversed(cuts))
        else:
            raise core.Violation("merged-segment-missing", "chain %r: no segment named %r or %r after merging (segments: %r)" %
                                 (names, fwd, rev, sorted(post.seq)), what="name")
        for s in names:
            if s in post.seq and s not in (fwd, rev):
                raise core.Violation("chain-member-left", "segment %s of the merged chain %r is still present" % (s, names))
        # sequence and length
        want_seq = spell(walk, wc, pre)
        st.count("oracle.spelled_sequence")
        if post.seq[mname] != want_seq:
            raise core.Violation("merged-sequence-differs", "chain %r merged as %s: sequence %r, spelled sequence %r" %
                                 (["%s%s" % x for x in walk], mname, post.seq[mname], want_seq), what="sequence")
        lens = [pre.length[s] for s in names]
        if all(x is not None for x in lens):
            want_len = sum(lens) - sum(0 if c == "*" else gtext.cigar_reflen(c) for c in wc)
            if post.length[mname] != want_len:
                raise core.Violation("merged-length-differs", "chain %r merged as %s: length %r, expected %d" %
                                     (names, mname, post.length[mname], want_len), what="length")
        elif post.length[mname] is not None:
            # a member of unknown length: the length of the chain is not known either
            st.count("probe.member_of_unknown_length")
            raise core.Violation("merged-length-differs", "chain %r (lengths %r) merged as %s: length %r given although "
                                 "a member has none" % (names, lens, mname, post.length[mname]), what="length-unknown")
        else:
            st.count("probe.member_of_unknown_length")
        mapping[(walk[0][0], oend(walk[0][1], False))] = (mname, "L")
        mapping[(walk[-1][0], oend(walk[-1][1], True))] = (mname, "R")
        merged_names[mname] = names
    chain_segs = set(s for names in merged_names.values() for s in names)
    # expected links: every link of the pre-state which is not an internal join, with chain ends renamed
    internal = set()
    joins = pre.linear_joins()
    for wk, cuts in paths:
        names = set(x[0] for x in wk)
        for l in joins:
            if l[0] in names and l[2] in names:
                internal.add(l[5])
    want_links = []
    for a, ea, b, eb, c, raw in pre.links:
        if raw in internal:
            continue
        if a in cyc_segs or b in cyc_segs:
            continue
        x = mapping.get((a, ea), (a, ea))
        y = mapping.get((b, eb), (b, eb))
        if (x[0] in chain_segs and x[0] not in merged_names) or (y[0] in chain_segs and y[0] not in merged_names):
            # a link to an *inner* end of a chain cannot exist (inner ends have exactly one dovetail)
            raise core.Violation("model-error", "inner chain end with an outward link")
        x, y = sorted([x, y])
        want_links.append((x, y, c if c == "*" else min(c, gtext.cigar_complement(c))))
    got_links = [l for l in post.canon_links() if l[0][0] not in cyc_segs and l[1][0] not in cyc_segs]
    st.count("oracle.outward_links")
    if sorted(want_links) != got_links and not cycles:
        extra = [x for x in got_links if x not in want_links]
        missing = [x for x in want_links if x not in got_links]
        raise core.Violation("outward-links-differ", "after merging %r: links %r unexpected, %r missing" %
                             (list(merged_names.values()), extra[:3], missing[:3]), what="links")
    # segments not in a chain are unchanged
    for s in pre.seq:
        if s not in chain_segs and s not in cyc_segs:
            if post.seq.get(s) != pre.seq[s]:
                raise core.Violation("untouched-segment-changed", "segment %s is in no chain but changed or vanished" % s)
    # other lines: those not touching a chain member are unchanged
    for ln in pre.other:
        f = ln.split("\t")
        touched = False
        if f[0] == "E":
            touched = f[2][:-1] in chain_segs or f[3][:-1] in chain_segs or f[2][:-1] in cyc_segs or f[3][:-1] in cyc_segs
        elif f[0] == "U":
            touched = any(x in chain_segs or x in cyc_segs for x in f[2].split(" "))
        elif f[0] == "C":
            touched = f[1] in chain_segs or f[3] in chain_segs or f[1] in cyc_segs or f[3] in cyc_segs
        elif f[0] == "P":
            touched = any(x[:-1] in chain_segs or x[:-1] in cyc_segs for x in f[2].split(","))
        if not touched and ln not in post.other:
            raise core.Violation("untouched-line-changed", "line %r touches no chain but is gone" % ln)
    # components preserved (chain members replaced by the merged segment)
    if not cycles:
        want_cc = set()
        back = {}
        for mname, names in merged_names.items():
            for s in names:
                back[s] = mname
        for c in pre.components():
            want_cc.add(frozenset(back.get(s, s) for s in c))
        st.count("oracle.components_preserved")
        if post.components() != want_cc:
            raise core.Violation("components-changed", "components %r, expected %r" %
                                 (sorted(sorted(c) for c in post.components()), sorted(sorted(c) for c in want_cc)))


from .c02 import simplify  # noqa: E402,F401
