"""C03 — the graph does not depend on the order of the lines.

The schedule is the delivery order: k permutations per document (uniform and
adversarial: references first, definitions last, reversed, riffles), chunking
between constructor and add_line, read-only queries interleaved during
delivery, hash seed. Oracle: identical abstract observation for all orders and
equal to the order-free text model; no placeholder left.
"""
import itertools
import gfapy
from .. import gen as G, hist, core, gtext
from ..model import Doc
from ..world import World
from ..rng import digest
from .. import observe as ob

PROP = "C03"
RUNS = {"quick": 2500, "thorough": 50000}
WALL = {"quick": 280, "thorough": 3500}
RULE = ("one run = one valid document delivered in k orders (4 quick / 12 thorough; all n! for <=5 "
        "records in the thorough tier); distinct = distinct (document digest, order digest) pairs")
PROBES = ["placeholder_substituted", "path_before_link", "group_before_items", "multiline_group",
          "chunked_delivery", "interleaved_queries", "asymmetric_cigar", "queued_ambiguous"]


def split_groups(rng, lines):
    """Split some O/U definitions over two lines with the same identifier."""
    out = []
    for ln in lines:
        f = ln.split("\t")
        if f[0] in ("O", "U") and f[1] != "*" and rng.random() < 0.4:
            items = f[2].split(" ")
            if len(items) >= 2:
                c = rng.randint(1, len(items) - 1)
                tags = f[3:]
                out.append("\t".join([f[0], f[1], " ".join(items[:c])] + tags[:1]))
                out.append("\t".join([f[0], f[1], " ".join(items[c:])] + tags[1:]))
                continue
        out.append(ln)
    return out


def keep_o_order(lines, perm):
    """Same-identifier O lines keep their relative order (their order is meaning, C17)."""
    groups = {}
    for pos, i in enumerate(perm):
        f = lines[i].split("\t")
        if f[0] == "O" and len(f) > 1 and f[1] != "*":
            groups.setdefault(f[1], []).append(pos)
    perm = list(perm)
    for _name, poss in groups.items():
        vals = sorted(perm[p] for p in poss)
        for p, v in zip(poss, vals):
            perm[p] = v
    return perm


def adversarial(rng, lines, mode):
    idx = list(range(len(lines)))
    rank_first = {"P": 0, "U": 0, "O": 1, "L": 2, "C": 2, "E": 2, "G": 2, "F": 2, "#": 3, "S": 4, "H": 5}
    if mode == "reverse":
        idx.reverse()
    elif mode == "refs_first":
        rng.shuffle(idx)
        idx.sort(key=lambda i: rank_first.get(lines[i].split("\t")[0][:1], 3))
    elif mode == "defs_first":
        rng.shuffle(idx)
        idx.sort(key=lambda i: -rank_first.get(lines[i].split("\t")[0][:1], 3))
    elif mode == "deciding_last":
        rng.shuffle(idx)
        dec = [i for i in idx if lines[i].split("\t")[0] in ("S", "E", "F", "G", "O", "U") or "VN:Z:" in lines[i]]
        idx = [i for i in idx if i not in dec] + dec
    elif mode == "riffle":
        a = sorted(idx, key=lambda i: rank_first.get(lines[i].split("\t")[0][:1], 3))
        b = list(reversed(a))
        idx = []
        seen = set()
        for x, y in zip(a, b):
            for z in (x, y):
                if z not in seen:
                    seen.add(z)
                    idx.append(z)
    else:
        rng.shuffle(idx)
    return idx


def gen(streams, tier, i):
    cfg = streams.get("config")
    k = G.swarm_knobs(cfg)
    k["max_seg"] = cfg.choice([2, 3, 4])
    if cfg.random() < 0.4:
        k["overlap"] = "asym"
    k["p_hairpin_circle"] = 0.15
    doc = G.gen_doc(streams.get("document"), k)
    lines = doc["lines"]
    if doc["version"] == "gfa2":
        lines = split_groups(streams.get("document"), lines)
    sr = streams.get("schedule")
    n = len(lines)
    korders = 4 if tier == "quick" else 12
    orders = []
    if tier == "thorough" and n <= 5:
        for perm in itertools.permutations(range(n)):
            orders.append(list(perm))
    else:
        modes = ["reverse", "refs_first", "defs_first", "deciding_last", "riffle"]
        for j in range(korders):
            mode = modes[j % len(modes)] if sr.random() < 0.5 else "shuffle"
            orders.append(adversarial(sr, lines, mode))
    vlevel = cfg.choice([0, 1, 1, 2, 3])
    ops = [{"op": "order", "perm": list(range(n)), "entry": "list", "chunk": n, "queries": False}]
    for perm in orders:
        perm = keep_o_order(lines, perm)
        entry = sr.choice(["list", "str", "incremental", "incremental", "file_lf"])
        ops.append({"op": "order", "perm": perm, "entry": entry,
                    "chunk": sr.randint(0, n) if entry == "incremental" else n,
                    "queries": entry == "incremental" and sr.random() < 0.5})
    return {"cfg": {"version": doc["version"], "vlevel": vlevel, "exhaustive": tier == "thorough" and n <= 5},
            "lines": lines, "ops": ops}


def canon_u(doc_lines):
    """U item lists compared as multisets."""
    out = []
    for ln in doc_lines:
        f = ln.split("\t")
        if f[0] == "U" and len(f) > 2:
            f[2] = " ".join(sorted(f[2].split(" ")))
            out.append("\t".join(f))
        else:
            out.append(ln)
    return sorted(out)


def _u(s):
    if isinstance(s, str) and s.startswith("U\t"):
        f = s.split("\t")
        if len(f) > 2:
            f[2] = " ".join(sorted(f[2].split(" ")))
        return "\t".join(f)
    return s


def norm_u(o):
    """U item lists are multisets: rewrite every U line text inside an observation."""
    if isinstance(o, dict):
        return dict((_u(k), norm_u(v)) for k, v in o.items())
    if isinstance(o, list):
        r = [norm_u(x) for x in o]
        if all(isinstance(x, str) for x in r):
            r = sorted(r)
        return r
    return _u(o)


def queries(g):
    """read-only calls interleaved during delivery"""
    def f():
        str(g)
        g.names
        for s in g.segments:
            s.dovetails_L, s.dovetails_R, s.neighbours, s.containments
        for p in g.paths:
            str(p)
        try:
            g.validate()
        except gfapy.Error:
            pass
    return core.call(f)


def build(w, lines, perm, op, vlevel, st):
    ordered = [lines[i] for i in perm if i < len(lines)]
    entry = op["entry"]
    if entry != "incremental":
        return w.construct(entry, ordered, vlevel=vlevel)
    chunk = min(op.get("chunk", 0), len(ordered))
    st.count("probe.chunked_delivery")

    def f():
        g = gfapy.Gfa(ordered[:chunk], vlevel=0) if False else gfapy.Gfa(vlevel=vlevel)
        for ln in ordered[:chunk]:
            g.add_line(ln)
        for ln in ordered[chunk:]:
            g.add_line(ln)
            if op.get("queries"):
                queries(g)
        g.process_line_queue()
        if vlevel >= 1:
            g.validate()
        return g
    if op.get("queries"):
        st.count("probe.interleaved_queries")
    return core.call(f)


def probes(lines, perm, st):
    if perm and lines[perm[0]].split("\t")[0] in ("L", "C", "P"):
        st.count("probe.queued_ambiguous")
    pos = {}
    for p, i in enumerate(perm):
        if i < len(lines):
            pos[i] = p
    first_def = {}
    for i, ln in enumerate(lines):
        f = ln.split("\t")
        if f[0] == "S":
            first_def[f[1]] = pos.get(i, 0)
    for i, ln in enumerate(lines):
        f = ln.split("\t")
        if f[0] in ("L", "C") and len(f) > 3:
            if any(pos.get(i, 0) < first_def.get(s, -1) for s in (f[1], f[3])):
                st.count("probe.placeholder_substituted")
        if f[0] == "P" and len(f) > 2:
            segs = [x[:-1] for x in f[2].split(",")]
            for j, l2 in enumerate(lines):
                g2 = l2.split("\t")
                if g2[0] == "L" and g2[1] in segs and g2[3] in segs and pos.get(i, 0) < pos.get(j, 0):
                    st.count("probe.path_before_link")
                    break
        if f[0] in ("O", "U"):
            st.count("probe.group_before_items")


def run(scn, st):
    lines = scn["lines"]
    version = scn["cfg"]["version"]
    vlevel = scn["cfg"]["vlevel"]
    m = Doc(version)
    for ln in lines:
        res = m.add_text(ln)
        if res not in ("ok", "merged", "dup-complement"):
            return   # not a valid document (can only happen in shrunk scenarios)
    if not m.settled():
        return
    names = [l.split("\t")[1] for l in lines if l.split("\t")[0] in ("O", "U") and len(l.split("\t")) > 1]
    if len(set(names)) != len(names):
        st.count("probe.multiline_group")
    if any(any(c in ln.split("\t")[5] for c in "ID") for ln in lines if ln.startswith("L\t") and len(ln.split("\t")) > 5):
        st.count("probe.asymmetric_cigar")
    if scn["cfg"].get("exhaustive"):
        st.count("probe.exhaustive_small")
    want_doc = canon_u(m.canon())
    ref = None
    ref_perm = None
    for n, op in enumerate(scn["ops"]):
        st.step()
        st.count("op.order")
        w = World(st)
        perm = [i for i in op["perm"] if i < len(lines)]
        if sorted(perm) != list(range(len(lines))):
            perm = perm + [i for i in range(len(lines)) if i not in perm]
        perm = keep_o_order(lines, perm)
        probes(lines, perm, st)
        st.sched(digest([digest(lines), perm, op["entry"], op.get("chunk")]))
        out = build(w, lines, perm, op, vlevel, st)
        if not out.ok:
            raise core.Violation("order-rejected",
                                 "valid document rejected in order %r (entry %s): %s: %s" %
                                 (perm, op["entry"], out.excname, str(out.exc)[:300]),
                                 exc=out.excname, frame=out.frame, entry=op["entry"])
        g = out.value
        a = norm_u(ob.abstract(g))
        a["doc"] = canon_u(a["doc"])
        st.state(digest(a))
        st.count("oracle.model_equal")
        if a["version"] != version:
            raise core.Violation("version-differs", "order %r gives version %r, document is %s" %
                                 (perm, a["version"], version), entry=op["entry"])
        if a["doc"] != want_doc:
            extra = [x for x in a["doc"] if x not in want_doc]
            missing = [x for x in want_doc if x not in a["doc"]]
            raise core.Violation("text-differs-from-model",
                                 "order %r (entry %s): extra %r missing %r" % (perm, op["entry"], extra[:3], missing[:3]),
                                 entry=op["entry"], rts=sorted(set(x.split("\t")[0] for x in extra + missing))[:4])
        if a["virtual"]:
            raise core.Violation("placeholder-left", "order %r: placeholders remain for %r" % (perm, a["virtual"][:3]),
                                 entry=op["entry"])
        for pn, trav in a["paths"].items():
            for t in trav:
                if isinstance(t, list) and t[2] is False:
                    raise core.Violation("path-link-orientation",
                                         "order %r: path %s records the wrong traversal direction for %r" %
                                         (perm, pn, t[0]), entry=op["entry"])
        amb = version == "gfa1" and any(q.rt == "P" and any(len(m.find_links(*lk)) > 1 for lk in m.path_links(q))
                                          for q in m.recs)
        if amb:
            a["paths"] = {}
            a["others"] = {}
        # U back-reference lists: multiset semantics already (sorted)
        if ref is None:
            ref, ref_perm = a, perm
            continue
        st.count("oracle.orders_equal")
        if a != ref:
            diff = [key for key in a if a[key] != ref[key]]
            detail = ""
            for key in diff[:1]:
                if isinstance(a[key], dict):
                    for kk in sorted(set(a[key]) | set(ref[key])):
                        if a[key].get(kk) != ref[key].get(kk):
                            detail = "%s[%s]: %r vs %r" % (key, kk, ref[key].get(kk), a[key].get(kk))
                            break
                else:
                    detail = "%s: %r vs %r" % (key, ref[key], a[key])
            raise core.Violation("order-dependent",
                                 "orders %r and %r build different graphs (%r): %s" %
                                 (ref_perm, perm, diff, detail[:500]), what=",".join(diff))


def simplify(scn):
    """Remove one document line at a time, keeping the document valid."""
    lines = scn["lines"]
    version = scn["cfg"]["version"]
    for i in range(len(lines)):
        cand = lines[:i] + lines[i + 1:]
        m = Doc(version)
        ok = all(m.add_text(ln) in ("ok", "merged", "dup-complement") for ln in cand)
        if not ok or not m.settled():
            continue
        c = dict(scn)
        c["lines"] = cand
        ops = []
        for op in scn["ops"]:
            if "perm" in op:
                perm = [p if p < i else p - 1 for p in op["perm"] if p != i]
                ops.append(dict(op, perm=perm))
            else:
                ops.append(op)
        c["ops"] = ops
        yield c
    for i, ln in enumerate(lines):
        f = ln.split("\t")
        g = [x for x in f if not (gtext.TAG_RE.match(x) and x[:3] not in ("ID:", "LN:", "VN:"))]
        if len(g) < len(f):
            c = dict(scn)
            c["lines"] = lines[:i] + ["\t".join(g)] + lines[i + 1:]
            yield c
