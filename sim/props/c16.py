"""C16 — connected components and topology counts agree with the graph.

Graphs (isolated segments, trees, cycles, self-links, hairpins, parallel edges,
containment-only and internal-only relations) built under a scheduled delivery
and a C05 mutation history, under several hash seeds (the implementation
collects components in sets of lines hashed by name). Oracle at every settled
step: components == union-find over the model's dovetail records, counters ==
record counts by the specification's classification; remove_small_components
removes exactly the classes whose summed length is < minlen.
"""
import gfapy
from .. import gen as G, hist, core, gtext
from ..model import Doc, classify_edge, UnionFind
from ..world import World
from ..rng import digest
from .. import observe as ob
from . import c05, c11

PROP = "C16"
RUNS = {"quick": 4000, "thorough": 150000}
WALL = {"quick": 280, "thorough": 3500}
RULE = ("one run = document + scheduled delivery + mutation history; components and counters compared "
        "with the model at every settled step; distinct = distinct (partition, counters) digests")
PROBES = ["multi_component", "cycle", "self_link", "containment_only_relation", "internal_only_relation",
          "after_mutation", "remove_small_components", "isolated_segment", "component_ge3", "split_components",
          "long_chain"]


def gen(streams, tier, i):
    cfg = streams.get("config2")
    if cfg.random() < 0.004:
        # one long chain: the traversal must not depend on the recursion limit
        n = cfg.choice([1100, 1500])
        v = cfg.choice(["gfa1", "gfa2"])
        return {"cfg": {"version": v, "vlevel": cfg.choice([0, 1]), "long_chain": n}, "ops": []}
    scn = c11.gen(streams, tier, i + 7919, over={"max_seg": cfg.choice([3, 5, 8]), "min_seg": 2,
                                                  "max_link": cfg.choice([3, 6, 10]), "max_edge": cfg.choice([3, 6, 10]),
                                                  "etypes": ["dovetail", "dovetail", "cont", "internal", "any"]})
    scn["cfg"].pop("cell", None)
    scn["ops"] = [o for o in scn["ops"] if o["op"] != "flip_ref"]      # (C11's business)
    r = streams.get("history")
    if r.random() < 0.4:
        scn["ops"].append({"op": "remove_small", "minlen": r.choice([1, 5, 10, 20, 40, 1000])})
    return scn


def model_topology(m):
    v = m.version
    segs = [r.pos[0] for r in m.recs if r.rt == "S"]
    uf = UnionFind(segs)
    nd = nc = ni = 0
    ends = set()
    for r in m.recs:
        if v == "gfa1":
            if r.rt == "L":
                nd += 1
                uf.union(r.pos[0], r.pos[2])
                ends.add((r.pos[0], "R" if r.pos[1] == "+" else "L"))
                ends.add((r.pos[2], "L" if r.pos[3] == "+" else "R"))
            elif r.rt == "C":
                nc += 1
        elif r.rt == "E":
            s1, o1, s2, o2 = r.pos[1][:-1], r.pos[1][-1], r.pos[2][:-1], r.pos[2][-1]
            t, k1, k2 = classify_edge(o1, r.pos[3], r.pos[4], o2, r.pos[5], r.pos[6])
            if t == "dovetail":
                nd += 1
                uf.union(s1, s2)
                ends.add((s1, k1[-1]))
                ends.add((s2, k2[-1]))
            elif t == "containment":
                nc += 1
            else:
                ni += 1
    dead = sum(1 for s in segs for e in "LR" if (s, e) not in ends)
    return uf.classes(), {"n_dovetails": nd, "n_containments": nc, "n_internals": ni, "n_dead_ends": dead}


def model_dovetails(m):
    """[(record, seg1, seg2)] for every dovetail record of the document"""
    out = []
    for r in m.recs:
        if m.version == "gfa1":
            if r.rt == "L":
                out.append((r, r.pos[0], r.pos[2]))
        elif r.rt == "E":
            s1, o1, s2, o2 = r.pos[1][:-1], r.pos[1][-1], r.pos[2][:-1], r.pos[2][-1]
            if classify_edge(o1, r.pos[3], r.pos[4], o2, r.pos[5], r.pos[6])[0] == "dovetail":
                out.append((r, s1, s2))
    return out


def cut_queries(w, m, st, n, op, classes):
    """is_cut_segment / is_cut_link: does the removal split a class of the dovetail relation?"""
    g = w.gfa
    dov = model_dovetails(m)
    segs = sorted(r.pos[0] for r in m.recs if r.rt == "S")
    for s in segs[(n % 3)::3][:4]:
        cls = [c for c in classes if s in c][0]
        rest = [x for x in cls if x != s]
        uf = UnionFind(rest)
        for _r, a, b in dov:
            if a != s and b != s and a in cls and b in cls:
                uf.union(a, b)
        want = len(uf.classes()) > 1
        o = core.call(g.is_cut_segment, s)
        st.count("oracle.cut_segment")
        if not o.ok:
            raise core.Violation("cut-query-raised", "is_cut_segment(%r) raised %s: %s" % (s, o.excname, str(o.exc)[:150]),
                                 exc=o.excname, frame=o.frame, q="segment")
        if bool(o.value) != want:
            raise core.Violation("cut-segment-differs", "after step %d: is_cut_segment(%r)=%r, removing it %s its class %r" %
                                 (n, s, o.value, "splits" if want else "does not split", sorted(cls)), q="segment")
    for idx, (rec, a, b) in list(enumerate(dov))[(n % 2)::2][:4]:
        if a == b:
            continue
        uf = UnionFind(segs)
        for j, (_r, x, y) in enumerate(dov):
            if j != idx:
                uf.union(x, y)
        want = not any(a in c and b in c for c in uf.classes())
        name = m.name_of(rec)
        l = g.line(name) if name else w._target({"text": rec.render()})
        if l is None:
            continue
        o = core.call(g.is_cut_link, l)
        st.count("oracle.cut_link")
        if not o.ok:
            raise core.Violation("cut-query-raised", "is_cut_link(%r) raised %s: %s" % (rec.render(), o.excname, str(o.exc)[:150]),
                                 exc=o.excname, frame=o.frame, q="link")
        if bool(o.value) != want:
            raise core.Violation("cut-link-differs", "after step %d: is_cut_link(%r)=%r, removing it %s %s from %s" %
                                 (n, rec.render(), o.value, "separates" if want else "does not separate", a, b), q="link")


def split_query(w, m, st, classes):
    g = w.gfa
    pre = digest(ob.observe(g))
    o = core.call(g.split_connected_components)
    st.count("oracle.split_components")
    st.count("probe.split_components")
    if not o.ok:
        raise core.Violation("split-raised", "split_connected_components() raised %s: %s" % (o.excname, str(o.exc)[:200]),
                             exc=o.excname, frame=o.frame)
    got = set(frozenset(x.segment_names) for x in o.value)
    if got != classes or len(o.value) != len(classes):
        raise core.Violation("split-differs", "split_connected_components() gives segment sets %r, the classes are %r" %
                             (sorted(sorted(c) for c in got), sorted(sorted(c) for c in classes)))
    if digest(ob.observe(g)) != pre:
        raise core.Violation("split-modified-gfa", "split_connected_components() changed the Gfa it was called on")


def check(w, m, st, n, op):
    g = w.gfa
    classes, counts = model_topology(m)
    if len(classes) > 1:
        st.count("probe.multi_component")
    if any(len(c) >= 3 for c in classes):
        st.count("probe.component_ge3")
    if any(len(c) == 1 for c in classes):
        st.count("probe.isolated_segment")
    if counts["n_containments"] and len(classes) > 1:
        st.count("probe.containment_only_relation")
    if counts["n_internals"]:
        st.count("probe.internal_only_relation")
    if counts["n_dovetails"] >= sum(len(c) for c in classes) - len(classes) + 1 and counts["n_dovetails"] > 0:
        st.count("probe.cycle")
    o = core.call(g.connected_components)
    st.count("oracle.components")
    if not o.ok:
        raise core.Violation("components-raised", "after step %d: connected_components() raised %s: %s" %
                             (n, o.excname, str(o.exc)[:200]), exc=o.excname, frame=o.frame)
    got = set(frozenset(s.name for s in cc) for cc in o.value)
    total = sum(len(cc) for cc in o.value)
    st.state(digest([sorted(sorted(c) for c in classes), counts]))
    if got != classes or total != sum(len(c) for c in classes):
        raise core.Violation("components-differ",
                             "after step %d %r: connected_components=%r, the document's dovetails give %r" %
                             (n, op.get("line", op), sorted(sorted(c) for c in got), sorted(sorted(c) for c in classes)),
                             op=op["op"])
    for s in g.segments:
        oc = core.call(g.segment_connected_component, s)
        st.count("oracle.segment_component")
        if not oc.ok:
            raise core.Violation("components-raised", "segment_connected_component(%s) raised %s" % (s.name, oc.excname),
                                 exc=oc.excname, frame=oc.frame)
        cls = [c for c in classes if s.name in c][0]
        if frozenset(x.name for x in oc.value) != cls or len(oc.value) != len(cls):
            raise core.Violation("segment-component-differs", "segment_connected_component(%s)=%r, expected %r" %
                                 (s.name, sorted(x.name for x in oc.value), sorted(cls)), op=op["op"])
        ocn = core.call(g.segment_connected_component, s.name)
        if not ocn.ok or frozenset(x.name for x in ocn.value) != cls:
            raise core.Violation("segment-component-differs", "segment_connected_component(%r) by name differs" % s.name,
                                 op=op["op"])
    for k, v in sorted(counts.items()):
        oc = core.call(lambda: getattr(g, k))
        st.count("oracle.counters")
        if not oc.ok or oc.value != v:
            raise core.Violation("counter-differs", "after step %d %r: %s=%r, the document says %d" %
                                 (n, op.get("line", op), k, oc.value if oc.ok else oc.excname, v), counter=k, op=op["op"])
    cut_queries(w, m, st, n, op, classes)
    if n % 7 == 0 and len(g.segments) <= 8:
        split_query(w, m, st, classes)


def run_long_chain(scn, st):
    n, v = scn["cfg"]["long_chain"], scn["cfg"]["version"]
    st.count("probe.long_chain")
    if v == "gfa1":
        lines = ["S\ts%d\t*" % i for i in range(n)] + ["L\ts%d\t+\ts%d\t+\t*" % (i, i + 1) for i in range(n - 1)]
    else:
        lines = ["S\ts%d\t10\t*" % i for i in range(n)] + \
                ["E\t*\ts%d+\ts%d+\t5\t10$\t0\t5\t*" % (i, i + 1) for i in range(n - 1)]
    w = World(st)
    o = w.construct("list", lines, vlevel=scn["cfg"]["vlevel"])
    if not o.ok:
        raise core.Violation("components-raised", "a chain of %d segments is rejected: %s" % (n, o.excname), exc=o.excname)
    g = o.value
    for what, fn, want in (("connected_components", lambda: [len(c) for c in g.connected_components()], [n]),
                           ("segment_connected_component", lambda: len(g.segment_connected_component("s0")), n),
                           ("n_dovetails", lambda: g.n_dovetails, n - 1),
                           ("is_cut_segment(middle)", lambda: g.is_cut_segment("s%d" % (n // 2)), True),
                           ("linear_paths", lambda: [len(p) for p in g.linear_paths()], [n])):
        r = core.call(fn)
        st.count("oracle.long_chain")
        if not r.ok:
            raise core.Violation("components-raised", "chain of %d segments: %s raised %s: %s" %
                                 (n, what, r.excname, str(r.exc)[:150]), exc=r.excname, frame=r.frame)
        if r.value != want:
            raise core.Violation("components-differ", "chain of %d segments: %s = %r, expected %r" % (n, what, r.value, want),
                                 op="long_chain")


def run(scn, st):
    if scn["cfg"].get("long_chain"):
        return run_long_chain(scn, st)
    w = World(st)
    version = scn["cfg"]["version"]
    m = None
    mutated = False
    for n, op in enumerate(scn["ops"]):
        if op["op"] == "new":
            w.apply(op)
            m = Doc(version)
            continue
        if w.gfa is None or m.unspecified:
            return
        if op["op"] == "remove_small":
            if not (m.settled() and w.gfa.version == version):
                return
            classes, _c = model_topology(m)
            lens = {}
            for c in classes:
                ls = [m.seglen(s) for s in c]
                if any(x is None for x in ls):
                    return
                lens[c] = sum(ls)
            st.count("probe.remove_small_components")
            o = core.call(w.gfa.remove_small_components, op["minlen"])
            if not o.ok:
                raise core.Violation("remove-small-raised", "remove_small_components(%d) raised %s: %s" %
                                     (op["minlen"], o.excname, str(o.exc)[:200]), exc=o.excname, frame=o.frame)
            for c in classes:
                if lens[c] < op["minlen"]:
                    for s in sorted(c):
                        rec = m.by_name(s)
                        if rec is not None:
                            m.remove([rec])
            if m.unspecified:
                return
            st.count("oracle.remove_small_post_state")
            c05.compare(w, m, st, n, op)
            check(w, m, st, n, op)
            continue
        exp = c05.model_apply(m, op, core.Stats())
        if exp == "skip":
            continue
        out = w.apply(op)
        if m.unspecified or (exp == "ok" and not out.ok):
            return
        if op["op"] in ("rm", "rename"):
            mutated = True
        if op["op"] == "add" and op["line"].split("\t")[0] in ("L", "E"):
            f = op["line"].split("\t")
            if f[0] == "L" and f[1] == f[3]:
                st.count("probe.self_link")
        if m.settled() and w.gfa.version == version:
            if mutated:
                st.count("probe.after_mutation")
            check(w, m, st, n, op)


from .c02 import simplify  # noqa: E402,F401
