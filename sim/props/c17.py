"""C17 — GFA2 groups resolve to the paths and sets the specification defines.

Groups are generated *from an intended walk / intended set* of a generated
graph (geometrically consistent dovetails only), written in one of several
item styles (segments only, edges only, alternating, mixed with omissions,
nested paths referenced with + or -), split over 1-3 lines with the same
identifier, and delivered in scheduler-chosen orders relative to each other and
to every line they mention. Oracle: merged items / tags; captured path ==
intended walk; induced set == intended set; non-contiguous and ambiguous items
reported as errors.
"""
import gfapy
from .. import gen as G, hist, core, gtext
from ..world import World
from ..rng import digest
from .. import observe as ob
from ..gtext import inv

PROP = "C17"
RUNS = {"quick": 20000, "thorough": 1000000}
WALL = {"quick": 280, "thorough": 3500}
RULE = ("one run = graph + 1-4 groups built from intended walks/sets in a random item style, split over "
        "lines, delivered in a scheduled order; distinct = distinct (style, walk shape, order) digests")
PROBES = ["style_segments", "style_edges", "style_alternating", "style_mixed", "nested_plus", "nested_minus",
          "replaced_group_object_edited", "multiline_o", "multiline_u", "group_before_items", "reversed_edge_traversal", "noncontiguous",
          "ambiguous", "single_edge_item", "set_with_path", "set_nested", "walk_len_ge4", "contradicting_tags", "reader_during_delivery",
          "early_answer", "early_error", "nested2", "nested2_minus", "sub_edge_boundary",
          "unnamed_edge_induced", "wrong_orientation"]


def edge_line(eid, a, oa, b, ob, seglen, rng):
    la, lb = seglen[a], seglen[b]
    n = rng.randint(1, min(la, lb, 4) - 0) if min(la, lb) > 1 else 1
    n = max(1, min(n, la - 1, lb - 1))
    if oa == "+":
        b1, e1 = la - n, la
    else:
        b1, e1 = 0, n
    if ob == "+":
        b2, e2 = 0, n
    else:
        b2, e2 = lb - n, lb
    kind = rng.random()
    if kind < 0.15 and la > 3:
        # not a dovetail: the second segment lies within the first one (a group steps over any edge that joins
        # the two oriented segments, whatever its kind)
        b1, e1, b2, e2 = 1, min(la - 1, 1 + n), 0, lb
    elif kind < 0.3 and la > 4 and lb > 4:
        # an internal alignment
        b1, e1, b2, e2 = 1, 1 + min(n, la - 3), 2, 2 + min(n, lb - 4)
    return "\t".join(["E", eid, a + oa, b + ob, G.pos_str(b1, la), G.pos_str(e1, la), G.pos_str(b2, lb),
                      G.pos_str(e2, lb), "*"])


def steps_from(cur, edges, unnamed=False):
    """possible next steps from oriented segment cur: [(eid, orient, next)]; edges without identifier
    ('*', internal ids '*<n>') cannot be listed by a group and are not walked, but they count when an edge
    has to be implied (unnamed=True)"""
    out = []
    for (eid, a, oa, b, ob) in edges:
        if a == b and oa != ob:
            continue      # hairpin edges are not walked (both readings start at the same end)
        if eid[:1] == "*" and not unnamed:
            continue
        if (a, oa) == cur:
            out.append((eid, "+", (b, ob)))
        if (b, inv(ob)) == cur:
            out.append((eid, "-", (a, inv(oa))))
    return out


def fitting(prev, cur, edges):
    return [(eid, o) for (eid, o, nxt) in steps_from(prev, edges, unnamed=True) if nxt == cur]


def loose_fitting(prev, cur, edges):
    """edges joining the two oriented segments in any written form; gfapy also accepts an edge written
    in the opposite direction as connecting two listed segments, the specification is silent: an
    implied edge is only used where exactly one edge joins the pair in any form."""
    out = []
    for (eid, a, oa, b, ob) in edges:
        pair = {(a, oa), (b, ob)}
        if pair == {prev, cur} or pair == {(prev[0], inv(prev[1])), (cur[0], inv(cur[1]))}:
            out.append(eid)
        elif len(pair) == 1 and prev == cur and (a, oa) in (prev, (prev[0], inv(prev[1]))):
            out.append(eid)
    return out


def implied_ok(prev, cur, edges):
    f = fitting(prev, cur, edges)
    return len(f) == 1 and f[0][0][:1] != "*" and len(loose_fitting(prev, cur, edges)) == 1


def simple(walk):
    names = [x[0] for x in walk[0::2]]
    return len(set(names)) == len(names)


def reverse_walk(walk):
    """walk = [seg, edge, seg, ...] with seg=(name,orient), edge=(eid,orient)"""
    out = []
    for x in reversed(walk):
        out.append((x[0], inv(x[1])))
    return out


def render_items(rng, walk, edges, style):
    """-> list of item strings or None if the style cannot express the walk unambiguously"""
    segs = walk[0::2]
    eds = walk[1::2]
    unique = all(implied_ok(segs[i], segs[i + 1], edges) for i in range(len(segs) - 1))
    if style == "segments":
        if not unique:
            return None
        return ["%s%s" % s for s in segs]
    if style == "edges":
        # segments supplied for edges: every edge is walked in its written direction (or backwards with -)
        if not eds:
            return None
        return ["%s%s" % e for e in eds]
    if style == "alternating":
        return ["%s%s" % x for x in walk]
    if style == "mixed":
        keep = [True] * len(walk)
        for i in range(len(walk)):
            if rng.random() < 0.4:
                left = keep[i - 1] if i > 0 else None
                right = keep[i + 1] if i + 1 < len(walk) else None
                if i % 2 == 1:
                    # an edge may be omitted between two listed segments when exactly one fits
                    if left and right and implied_ok(walk[i - 1], walk[i + 1], edges):
                        keep[i] = False
                else:
                    # a segment may be omitted when every neighbouring element is a listed edge
                    if (left is None or left) and (right is None or right) and len(walk) > 1 and simple(walk):
                        keep[i] = False
        items = ["%s%s" % x for x, kk in zip(walk, keep) if kk]
        return items or None
    return None


def nest(wr, walk, edges, depth, lead_ok, trail_ok, can_drop, mk_name, gl, groups):
    """Items of an ordered group whose captured walk is `walk`, written with nested paths up to `depth` levels.
    A nested path may begin / end with an *edge* item (its boundary segment is then supplied by the edge) only
    where inlining its items and inlining its captured path coincide: next to an explicit edge item of the
    enclosing list, or at the boundary of a list that is itself allowed to begin / end with an edge."""
    nsegs = (len(walk) + 1) // 2
    if depth > 0 and nsegs >= 2 and wr.random() < 0.85:
        # nested paths at the boundary of the enclosing list are favoured: there the kind of the boundary item
        # (segment or edge) of the nested path is what the enclosing lists inherit
        i0 = 0 if wr.random() < 0.5 else wr.randint(0, nsegs - 2)
        j0 = nsegs - 1 if wr.random() < 0.4 else wr.randint(i0 + 1, nsegs - 1)
        sub = walk[2 * i0: 2 * j0 + 1]
        pre = list(walk[:2 * i0])          # s0 e1 ... e_i0  (ends with the junction edge)
        post = list(walk[2 * j0 + 1:])     # e_j0+1 s ...    (begins with the junction edge)
        pre_explicit = bool(pre) and (wr.random() < 0.6 or not implied_ok(pre[-2], sub[0], edges))
        post_explicit = bool(post) and (wr.random() < 0.6 or not implied_ok(sub[-1], post[1], edges))
        if pre and not pre_explicit:
            pre = pre[:-1]
        if post and not post_explicit:
            post = post[1:]
        sub_lead = pre_explicit or (not pre and lead_ok)
        sub_trail = post_explicit or (not post and trail_ok)
        sign = wr.choice("+-")
        subwalk = sub if sign == "+" else reverse_walk(sub)
        if sign == "-":
            sub_lead, sub_trail = sub_trail, sub_lead
        subname = mk_name()
        sub_items = nest(wr, subwalk, edges, depth - 1, sub_lead, sub_trail, can_drop, mk_name, gl, groups)
        gl.append(("O", subname, sub_items, []))
        groups.append({"rt": "O", "name": subname, "expect": subwalk, "style": "sub"})
        if pre and lead_ok and can_drop and len(pre) >= 2 and wr.random() < 0.4:
            pre = pre[1:]
        if post and trail_ok and can_drop and len(post) >= 2 and wr.random() < 0.4:
            post = post[:-1]
        return ["%s%s" % x for x in pre] + [subname + sign] + ["%s%s" % x for x in post]
    items = list(walk)
    if can_drop and len(items) >= 3:
        if lead_ok and wr.random() < 0.5:
            items = items[1:]
        if trail_ok and len(items) >= 2 and wr.random() < 0.5:
            items = items[:-1]
    return ["%s%s" % x for x in items]


def gen(streams, tier, i):
    cfg = streams.get("config")
    dr = streams.get("document")
    nseg = dr.randint(2, 6)
    segs = ["s%d" % j for j in range(1, nseg + 1)]
    seglen = dict((s, dr.randint(6, 14)) for s in segs)
    lines = ["\t".join(["S", s, str(seglen[s]), "*"]) for s in segs]
    edges = []
    seen_pairs = set()
    for j in range(dr.randint(1, 8)):
        a, b = dr.choice(segs), dr.choice(segs)
        if a == b and dr.random() < 0.7:
            continue          # some self-loop edges (they belong to induced edge sets like any other)
        oa, ob = dr.choice("+-"), dr.choice("+-")
        key = min(((a, oa), (b, ob)), ((b, inv(ob)), (a, inv(oa))))
        if key in seen_pairs and dr.random() < 0.8:
            continue
        seen_pairs.add(key)
        # some edges have no identifier: they cannot be listed, but they belong to induced sets like any other
        edges.append((("*%d" if dr.random() < 0.2 else "e%d") % (j + 1), a, oa, b, ob))
    edge_lines = {}
    for e in edges:
        lines.append(edge_line("*" if e[0][:1] == "*" else e[0], e[1], e[2], e[3], e[4], seglen, dr))
        edge_lines[e[0]] = lines[-1]
    groups = []       # dicts with expectations
    gl = []
    wr = streams.get("history")
    walks = {}
    for gno in range(dr.randint(1, 4)):
        kind = wr.choice(["O", "O", "O", "U", "neg"])
        if kind in ("O", "neg"):
            cur = (wr.choice(segs), wr.choice("+-"))
            walk = [cur]
            for _ in range(wr.randint(0, 5)):
                st_ = steps_from(cur, edges)
                if not st_:
                    break
                eid, o, nxt = wr.choice(st_)
                walk += [(eid, o), nxt]
                cur = nxt
            name = "p%d" % gno
            if kind == "neg":
                # non-contiguous: two consecutive segments without any edge, or ambiguous: two fitting edges
                cands = [(a, oa, b, ob) for a in segs for b in segs for oa in "+-" for ob in "+-"
                         if a != b and not loose_fitting((a, oa), (b, ob), edges)]
                amb = [(p, c) for p in [(s, o) for s in segs for o in "+-"] for c in [(s, o) for s in segs for o in "+-"]
                       if len(fitting(p, c, edges)) >= 2]
                if len(walk) >= 3 and wr.random() < 0.35:
                    # an edge is followed by the segment it leads to, written in the other orientation
                    k_ = 2 * wr.randint(1, (len(walk) - 1) // 2)
                    items = ["%s%s" % x for x in walk[:k_]] + ["%s%s" % (walk[k_][0], inv(walk[k_][1]))] + \
                            ["%s%s" % x for x in walk[k_ + 1:]]
                    if walk[k_][0] == walk[k_ - 2][0]:
                        continue      # (an edge of a segment with itself: the other orientation may fit too)
                    groups.append({"rt": "O", "name": name, "expect": "error", "why": "wrong_orientation"})
                elif amb and wr.random() < 0.5:
                    p, c = wr.choice(amb)
                    items = ["%s%s" % p, "%s%s" % c]
                    groups.append({"rt": "O", "name": name, "expect": "error", "why": "ambiguous"})
                elif cands:
                    a, oa, b, ob = wr.choice(cands)
                    items = [a + oa, b + ob]
                    groups.append({"rt": "O", "name": name, "expect": "error", "why": "noncontiguous"})
                else:
                    continue
                gl.append(("O", name, items, []))
                continue
            style = wr.choice(["segments", "edges", "alternating", "mixed", "nested", "nested", "nested2", "nested2"])
            nested_info = None
            if style == "nested2" and len(walk) >= 5:
                cnt = [0]

                def mk_name(gno=gno, cnt=cnt):
                    cnt[0] += 1
                    return "r%d_%d" % (gno, cnt[0])
                items = nest(wr, walk, edges, 2, True, True, simple(walk), mk_name, gl, groups)
                tags = wr.choice([[], ["xa:i:1"]])
                gl.append(("O", name, items, tags))
                groups.append({"rt": "O", "name": name, "expect": walk, "style": "nested2"})
                walks[name] = walk
                continue
            if style == "nested" and len(walk) >= 5 and walks is not None:
                # a sub-walk becomes its own path, referenced with + or -
                nsegs = (len(walk) + 1) // 2
                i0 = wr.randint(0, nsegs - 2)
                j0 = wr.randint(i0 + 1, nsegs - 1)
                sub = walk[2 * i0: 2 * j0 + 1]
                pre = walk[:2 * i0 - 1] if i0 > 0 else []
                post = walk[2 * j0 + 2:] if j0 < nsegs - 1 else []
                ok = True
                if pre and not implied_ok(pre[-1], sub[0], edges):
                    ok = False
                if post and not implied_ok(sub[-1], post[0], edges):
                    ok = False
                if ok:
                    sign = wr.choice("+-")
                    subname = "q%d" % gno
                    subwalk = sub if sign == "+" else reverse_walk(sub)
                    # the nested path begins and ends with a listed segment, so that inlining its items and
                    # inlining its captured path (the specification does not say which) coincide
                    sub_items = render_items(wr, subwalk, edges, wr.choice(["segments", "alternating"]))
                    pre_items = render_items(wr, pre, edges, "alternating") if pre else []
                    post_items = render_items(wr, post, edges, "alternating") if post else []
                    if sub_items:
                        gl.append(("O", subname, sub_items, []))
                        groups.append({"rt": "O", "name": subname, "expect": subwalk, "style": "sub"})
                        items = pre_items + [subname + sign] + post_items
                        if i0 == 1 and wr.random() < 0.5 and simple(walk):
                            # the group starts with the junction *edge*, directly followed by the nested path
                            items = ["%s%s" % walk[1]] + [subname + sign] + post_items
                        nested_info = sign
            if nested_info is None:
                if style == "nested":
                    style = "alternating"
                items = render_items(wr, walk, edges, style)
                if items is None:
                    items = render_items(wr, walk, edges, "alternating")
            tags = wr.choice([[], ["xa:i:1"], ["xa:i:1", "xb:Z:q"], ["xc:A:c", "xd:f:1.5"], ["xe:H:0A", "xf:J:{}", "xg:B:c,-1,2"],
                              ["xa:i:0", "xc:A:0"]])
            gl.append(("O", name, items, tags))
            groups.append({"rt": "O", "name": name, "expect": walk, "style": ("nested" + nested_info) if nested_info else style})
            walks[name] = walk
        else:
            name = "u%d" % gno
            pool = segs + [e[0] for e in edges if e[0][:1] != "*"] + [g["name"] for g in groups if g["expect"] != "error"]
            items = [wr.choice(pool) for _ in range(wr.randint(1, 5))]
            items = [x for x in items if x != name]
            gl.append(("U", name, items, wr.choice([[], ["xa:i:1"], ["xc:A:c", "xf:J:[]"], ["xa:i:0", "xd:f:0.0"]])))
            groups.append({"rt": "U", "name": name, "expect": "set", "items": items})
    # split over 1-3 lines with the same identifier
    glines = []
    conflict = None
    for rt, name, items, tags in gl:
        nparts = wr.choice([1, 1, 2, 3])
        nparts = min(nparts, len(items))
        cuts = sorted(wr.sample(range(1, len(items)), nparts - 1)) if nparts > 1 else []
        parts = [items[a:b] for a, b in zip([0] + cuts, cuts + [len(items)])]
        for pi, part in enumerate(parts):
            t = [tags[pi]] if pi < len(tags) and nparts > 1 else (tags if pi == 0 else [])
            if pi == 1 and tags and wr.random() < 0.35:
                # the second line repeats a tag of the first: with the same value (ignored) or a contradicting one
                n_, t_, v_ = tags[0].split(":", 2)
                if wr.random() < 0.5:
                    t = t + [tags[0]] if tags[0] not in t else t
                elif conflict is None:
                    other = {"i": ["0", "7"], "Z": ["0", "zz"], "A": ["0", "z"], "f": ["0.0", "2.5"], "H": ["00", "FF"],
                             "J": ["{}", "[1]"], "B": ["c,0", "c,5"]}[t_]
                    newv = wr.choice([x for x in other if x != v_])
                    t = [x for x in t if not x.startswith(n_ + ":")] + ["%s:%s:%s" % (n_, t_, newv)]
                    conflict = name
            glines.append("\t".join([rt, name, " ".join(part)] + t))
    all_lines = lines + glines
    sr = streams.get("schedule")
    order, mode = hist.schedule(sr, all_lines)
    # same-identifier O lines keep their relative order
    from .c03 import keep_o_order
    perm = [all_lines.index(x) for x in order] if len(set(all_lines)) == len(all_lines) else list(range(len(all_lines)))
    perm = keep_o_order(all_lines, perm)
    # a reader interleaved with the delivery: after these arrivals every group present is asked for its
    # captured path / induced set (the answer then may be an error: the definition is incomplete)
    peeks = sorted(set(sr.randrange(len(all_lines)) for _ in range(sr.choice([0, 0, 1, 2, 4])))) if all_lines else []
    return {"cfg": {"vlevel": cfg.choice([0, 1, 1, 2, 3]), "order": mode, "conflict": conflict, "peeks": peeks},
            "lines": all_lines, "edges": [list(e) for e in edges], "edge_lines": edge_lines, "groups": groups,
            "ops": [{"op": "order", "perm": perm}]}


def expected_set(name, groups_by, lines_by, edges, seen=()):
    """segments a U/O group induces (names), recursively"""
    g = groups_by[name]
    segs = []
    if g["rt"] == "O":
        if g["expect"] == "error":
            return None
        return [x[0] for x in g["expect"][0::2]]
    for it in g["items"]:
        if it in groups_by:
            if it in seen:
                return None
            sub = expected_set(it, groups_by, lines_by, edges, seen + (name,))
            if sub is None:
                return None
            segs += sub
        elif it.startswith("s"):
            segs.append(it)
        else:
            e = [x for x in edges if x[0] == it][0]
            segs += [e[1], e[3]]
    return segs


def stale_objects_edited(g, ordered, vlevel, st, perm):
    """the same delivery with the group lines given as Line objects the caller keeps: an object that was replaced by
    the merged group is the caller's own again, what is appended to it afterwards does not concern the group"""
    ids = [ln.split("\t")[1] for ln in ordered if ln.split("\t")[0] in ("O", "U")]
    if not any(ids.count(x) > 1 and x != "*" for x in ids):
        return
    kept = []

    def deliver():
        g2 = gfapy.Gfa(vlevel=vlevel, version="gfa2")
        for ln in ordered:
            if ln.split("\t")[0] in ("O", "U"):
                # (each with a tag of its own whose value is mutable, read once so that it is stored decoded)
                obj = gfapy.Line(ln + "\tz%d:J:[%d]" % (len(kept), len(kept)), vlevel=vlevel, version="gfa2")
                obj.get("z%d" % len(kept))
                kept.append(obj)
                g2.add_line(obj)
            else:
                g2.add_line(ln)
        return g2
    o2 = core.call(deliver)
    if not o2.ok:
        return
    edited = 0
    a = sorted(ob.text_lines(o2.value))
    for k_, obj in enumerate(kept):
        if not obj.is_connected():
            r = core.call(obj.append_item, "zzq9+") if obj.record_type == "O" else core.call(obj.add_item, "zzq9")
            edited += r.ok
            v = core.call(obj.get, "z%d" % k_)
            if v.ok and isinstance(v.value, list):
                v.value.append(99)
    if not edited:
        return
    st.count("probe.replaced_group_object_edited")
    st.count("oracle.replaced_object_detached")
    b = sorted(ob.text_lines(o2.value))
    if a != b:
        raise core.Violation("group-follows-replaced-object",
                             "order %r: after items were appended to the line objects replaced by merged groups (and their tag values edited in place) the Gfa "
                             "writes %r, expected %r" % (perm, [x for x in b if x not in a][:2], [x for x in a if x not in b][:2]),
                             rt="group")


def run(scn, st):
    lines = scn["lines"]
    edges = [tuple(e) for e in scn["edges"]]
    groups = scn["groups"]
    groups_by = dict((g["name"], g) for g in groups)
    vlevel = scn["cfg"]["vlevel"]
    for op in scn["ops"]:
        st.step()
        st.count("op.order")
        perm = [i for i in op["perm"] if i < len(lines)] + [i for i in range(len(lines)) if i not in op["perm"]]
        from .c03 import keep_o_order
        perm = keep_o_order(lines, perm)
        ordered = [lines[i] for i in perm]
        st.sched(digest([digest(lines), perm]))
        # probes on the schedule
        first_s = min([p for p, i in enumerate(perm) if lines[i].startswith("S\t")] or [0])
        if any(lines[i][0] in "OU" and p < first_s for p, i in enumerate(perm)):
            st.count("probe.group_before_items")
        w = World(st)
        peeks = set(scn["cfg"].get("peeks", []))

        def reader(gg, n):
            if n not in peeks:
                return
            st.count("probe.reader_during_delivery")
            for grp_line in list(gg.paths) + list(gg.sets):
                for attr in (("captured_path", "captured_segments", "captured_edges") if grp_line.record_type == "O"
                             else ("induced_set", "induced_segments_set", "induced_edges_set")):
                    r = core.call(getattr, grp_line, attr)
                    if r.ok:
                        st.count("probe.early_answer")
                    elif r.kind != "gfapy":
                        raise core.Violation("early-query-foreign", "%s of %r during delivery raised %s: %s" %
                                             (attr, str(grp_line), r.excname, str(r.exc)[:200]), exc=r.excname, frame=r.frame)
                    else:
                        st.count("probe.early_error")
        o = w.construct("incremental", ordered, vlevel=vlevel, observer=reader if peeks else None)
        if scn["cfg"].get("conflict"):
            # two lines of one group give the same tag different values: the definition is contradictory
            st.count("probe.contradicting_tags")
            st.count("oracle.contradicting_tags")
            if o.ok:
                raise core.Violation("contradicting-tags-merged",
                                     "group %s: lines %r give one tag two values but were merged silently" %
                                     (scn["cfg"]["conflict"], [x for x in ordered if x.split("\t")[1:2] == [scn["cfg"]["conflict"]]]),
                                     rt="group")
            if o.excname != "NotUniqueError":
                raise core.Violation("contradicting-tags-wrong-error", "contradicting group tags raised %s" % o.excname,
                                     exc=o.excname)
            continue
        if not o.ok:
            raise core.Violation("valid-rejected", "document rejected in order %r: %s: %s" %
                                 (perm, o.excname, str(o.exc)[:300]), exc=o.excname, frame=o.frame)
        g = o.value
        stale_objects_edited(g, ordered, vlevel, st, perm)
        for grp in groups:
            name = grp["name"]
            defs = [ln.split("\t") for ln in lines if ln.split("\t")[0] == grp["rt"] and ln.split("\t")[1] == name]
            l = g.line(name)
            if l is None or l.record_type != grp["rt"]:
                raise core.Violation("group-missing", "group %s not found after delivery in order %r" % (name, perm),
                                     rt=grp["rt"])
            # ---- merged definition: items concatenated in arrival order, tags united
            st.count("oracle.merged_items")
            if len(defs) > 1:
                st.count("probe.multiline_" + grp["rt"].lower())
            arr = [lines[i].split("\t") for i in perm if lines[i].split("\t")[0] == grp["rt"] and lines[i].split("\t")[1] == name]
            want_items = [x for d in arr for x in d[2].split(" ")]
            want_tags = sorted(set(t for d in arr for t in d[3:]))
            got = ob.line_text(l).split("\t")
            got_items = got[2].split(" ")
            if grp["rt"] == "U":
                same = sorted(got_items) == sorted(want_items)
            else:
                same = got_items == want_items
            if not same:
                raise core.Violation("merged-items-differ", "group %s: items %r, the lines in arrival order give %r" %
                                     (name, got_items, want_items), rt=grp["rt"])
            if sorted(got[3:]) != want_tags:
                raise core.Violation("merged-tags-differ", "group %s: tags %r, union is %r" % (name, got[3:], want_tags),
                                     rt=grp["rt"])
            # ---- resolution
            if grp["rt"] == "O":
                cp = core.call(lambda: l.captured_path)
                st.count("oracle.captured_path")
                if grp["expect"] == "error":
                    st.count("probe." + grp["why"])
                    if cp.ok:
                        raise core.Violation("invalid-path-resolved",
                                             "%s items %r resolve to %r instead of an error" %
                                             (grp["why"], got_items, [str(x) for x in cp.value]), why=grp["why"])
                    continue
                walk = grp["expect"]
                style = grp.get("style", "?")
                if style == "nested2":
                    st.count("probe.nested2")
                    if any(x[:1] == "r" and x[-1:] == "-" for x in got_items):
                        st.count("probe.nested2_minus")
                if style == "sub" and (got_items[0][:1] == "e" or got_items[-1][:1] == "e") and len(got_items) > 1:
                    st.count("probe.sub_edge_boundary")
                st.count("probe.style_" + style if style in ("segments", "edges", "alternating", "mixed") else
                         ("probe.nested_plus" if style == "nested+" else "probe.nested_minus" if style == "nested-" else "probe.style_alternating"))
                if len(walk) >= 7:
                    st.count("probe.walk_len_ge4")
                if any(x[1] == "-" for x in walk[1::2]):
                    st.count("probe.reversed_edge_traversal")
                if len(got_items) == 1 and got_items[0][:-1].startswith("e"):
                    st.count("probe.single_edge_item")
                want = ["%s%s" % x for x in walk]
                if not cp.ok:
                    raise core.Violation("valid-path-rejected",
                                         "group %s (%s style) items %r: captured_path raised %s: %s; intended walk %r" %
                                         (name, style, got_items, cp.excname, str(cp.exc)[:200], want),
                                         style=style, exc=cp.excname, frame=cp.frame)
                gotp = [str(x) for x in cp.value]
                st.state(digest([style, len(walk), gotp == want]))
                if gotp != want:
                    raise core.Violation("captured-path-differs",
                                         "group %s (%s style) items %r: captured_path=%r, intended walk %r" %
                                         (name, style, got_items, gotp, want), style=style,
                                         nitems=min(len(got_items), 3))
                cs = [str(x) for x in l.captured_segments]
                ce = [str(x) for x in l.captured_edges]
                if cs != want[0::2] or ce != want[1::2]:
                    raise core.Violation("captured-parts-differ", "captured_segments/edges disagree with captured_path",
                                         style=style)
            else:
                exp = expected_set(name, groups_by, None, edges)
                iss = core.call(lambda: l.induced_segments_set)
                st.count("oracle.induced_set")
                if any(it in groups_by and groups_by[it]["rt"] == "O" for it in grp["items"]):
                    st.count("probe.set_with_path")
                if any(it in groups_by and groups_by[it]["rt"] == "U" for it in grp["items"]):
                    st.count("probe.set_nested")
                if exp is None:
                    if iss.ok:
                        raise core.Violation("invalid-set-resolved", "set %s over an invalid path resolved" % name)
                    continue
                if not iss.ok:
                    raise core.Violation("valid-set-rejected", "set %s items %r: induced_segments_set raised %s: %s" %
                                         (name, grp["items"], iss.excname, str(iss.exc)[:200]), exc=iss.excname,
                                         frame=iss.frame)
                gs = sorted(x.name for x in iss.value)
                ws = sorted(set(exp))
                if gs != ws:
                    raise core.Violation("induced-segments-differ", "set %s items %r: induced segments %r, expected %r" %
                                         (name, grp["items"], gs, ws))
                ies = core.call(lambda: l.induced_edges_set)
                # edges are compared by their written form (an edge may have no identifier)
                etext = scn.get("edge_lines") or dict((e[0], e[0]) for e in edges)
                byname = "edge_lines" not in scn
                we = sorted(etext[e[0]] for e in edges if e[1] in ws and e[3] in ws)
                if any(e[0][:1] == "*" for e in edges if e[1] in ws and e[3] in ws):
                    st.count("probe.unnamed_edge_induced")
                ge = sorted((x.name if byname else ob.line_text(x)) for x in ies.value) if ies.ok else None
                if not ies.ok or ge != we:
                    raise core.Violation("induced-edges-differ", "set %s: induced edges %r, expected %r" %
                                         (name, ge if ies.ok else ies.excname, we))
                full = core.call(lambda: l.induced_set)
                gf = sorted((x.name if (byname or x.record_type == "S") else ob.line_text(x)) for x in full.value) if full.ok else None
                if not full.ok or gf != sorted(ws + we):
                    raise core.Violation("induced-set-differs", "set %s: induced_set inconsistent with its parts" % name)
                st.state(digest(["set", gs, we]))
