"""C12 — a link and its complement are one edge.

Transport fault: the complement of a stored link is delivered again (any number
of times, before or after the paths that use it). Paths are delivered before or
after their links and traverse them forwards or reversed. Oracles: complement
algebra (against the harness's own CIGAR code), duplicate-complement delivery
is a silent no-op on the full observation, a link differing otherwise is a
second edge, path resolution finds the stored link from either form and records
the traversal direction.
"""
import gfapy
from .. import gen as G, hist, core, gtext
from ..model import Doc
from ..world import World
from ..rng import digest
from .. import observe as ob

PROP = "C12"
RUNS = {"quick": 8000, "thorough": 220000}
WALL = {"quick": 280, "thorough": 3500}
RULE = ("one run = GFA1 document with links over all orientation pairs / self-links / hairpins and CIGARs "
        "over M,I,D,P,=,X,H, scheduled delivery, complement-duplicate faults, paths in both directions; "
        "distinct = distinct (link set digest, op) pairs")
PROBES = ["dup_complement", "dup_complement_before_path", "asym_cigar", "self_link", "hairpin",
          "path_reversed_traversal", "path_before_link", "variant_second_edge", "algebra_checked",
          "algebra_after_edit", "complement_held_early", "complement_of_link_with_placeholders",
          "complement_of_foreign_link", "held_complement_after_removal",
          "path_overlaps_partly_given", "tags_differ_one_side", "mirror_of_containment"]


def gen(streams, tier, i):
    cfg = streams.get("config")
    k = G.swarm_knobs(cfg)
    k.update({"max_seg": cfg.choice([2, 3, 4]), "max_link": cfg.choice([3, 6, 10]), "max_cont": 0,
              "max_path": 0, "overlap": cfg.choice(["asym", "all", "mixed", "all"]), "p_self": cfg.choice([0.1, 0.4]),
              "p_tags": 0.2, "max_hdr": 0, "max_comment": 0, "p_link_id": 0.0})
    doc = G.gen_gfa1(streams.get("document"), k)
    lines = doc["lines"]
    sr = streams.get("schedule")
    order, mode = hist.schedule(sr, lines)
    vlevel = cfg.choice([0, 1, 1, 2, 3])
    ops = [{"op": "new", "vlevel": vlevel, "version": cfg.choice([None, "gfa1"])}]
    links = [ln for ln in lines if ln.startswith("L\t")]
    segs = doc["segs"]
    hr = streams.get("history")
    tail = []
    pn = 0
    variants = []     # further links over the ends of a stored one (parallel edges, when accepted)
    for _ in range(hr.randint(2, 8)):
        r = hr.random()
        if r < 0.4 and links:
            f = hr.choice(links + variants).split("\t")
            a, b = gtext.link_forms(f[1:6])
            tail.append({"op": "dup_complement", "line": "\t".join(["L"] + list(b)), "as": hr.choice(["str", "obj"])})
        elif r < 0.7 and links:
            # a path over 1-2 links, in stored or reversed direction
            f = hr.choice(links).split("\t")
            a, b = gtext.link_forms(f[1:6])
            form = a if hr.random() < 0.5 else b
            pn += 1
            ov = form[4] if hr.random() < 0.7 else "*"
            tail.append({"op": "add_path", "line": "P\tpth%d\t%s%s,%s%s\t%s" % (pn, form[0], form[1], form[2], form[3], ov),
                         "reversed": form is b and a != b})
            if hr.random() < 0.35:
                # ... continued over a second link, the overlaps given for one step only (or for both)
                nxt = []
                for ln2 in links:
                    f2 = ln2.split("\t")
                    for fm in gtext.link_forms(f2[1:6]):
                        if (fm[0], fm[1]) == (form[2], form[3]):
                            nxt.append(fm)
                if nxt:
                    fm = hr.choice(nxt)
                    ovs = hr.choice([(form[4], "*"), ("*", fm[4]), (form[4], fm[4])])
                    if "*" not in (form[4], fm[4]):
                        pn += 1
                        tail.append({"op": "add_path", "line": "P\tpth%d\t%s%s,%s%s,%s%s\t%s,%s" %
                                     (pn, form[0], form[1], form[2], form[3], fm[2], fm[3], ovs[0], ovs[1]),
                                     "reversed": False, "mixed": "*" in ovs})
        elif links:
            f = hr.choice(links).split("\t")
            g = list(f[:6])
            how = hr.choice(["orient", "segment", "overlap"])
            if how == "orient":
                g[hr.choice([2, 4])] = gtext.inv(g[hr.choice([2, 4])]) if False else ("-" if g[2] == "+" else "+")
                g[2] = g[2]
            elif how == "segment":
                g[hr.choice([1, 3])] = hr.choice(segs)
            else:
                g[5] = hr.choice(["1M1I1M", "7M", "2D2M", "1X1=", "3M1P"])
                variants.append("\t".join(g))
            tail.append({"op": "variant", "line": "\t".join(g), "as": "str"})
    # place the tail ops at scheduler-chosen points of the delivery (paths may precede their links)
    body = [{"op": "add", "line": ln, "as": "str"} for ln in order]
    early = cfg.random() < 0.4
    for t in tail:
        pos = sr.randint(0, len(body)) if early else len(body)
        body.insert(pos, t)
    if cfg.random() < 0.5 and body:
        # a client takes the complement of a stored link at some point of the delivery (its segments may still be
        # placeholders then) and keeps it; at the end it compares it with the stored link and offers it to the Gfa
        body.insert(sr.randint(1, len(body)), {"op": "hold_complement", "i": sr.randrange(50)})
        # ... (or: removes the stored link first, so that the complement it kept is the only form of the edge)
        body.append({"op": "add_held", "rm_first": sr.random() < 0.4})
    if cfg.random() < 0.3 and links:
        # the complement of a link of *another* Gfa (same segment names) is offered
        f = hr.choice(links).split("\t")[:6]
        if hr.random() < 0.6:
            f[hr.choice([2, 4])] = hr.choice("+-")
            f[5] = hr.choice([f[5], "2M1I", "5M"])
        body.append({"op": "foreign_complement", "line": "\t".join(f)})
    ops += body
    ops.append({"op": "flush"})
    ops.append({"op": "algebra"})
    if cfg.random() < 0.25 and segs:
        # a containment with an identifier, then a link with the same identifier written as its mirror image: another
        # record type is not the other form of the edge, the identifier is taken
        x, y = hr.choice(segs), hr.choice(segs)
        cg = hr.choice(["3M1I2M", "4M", "1D2M", "*", "2M2I"])
        o1, o2 = hr.choice("+-"), hr.choice("+-")
        a, b = gtext.link_forms([x, o1, y, o2, cg])
        ops.append({"op": "mirror_of_containment", "c": "C\t%s\t%s\t%s\t%s\t%d\t%s\tID:Z:zmx" % (x, o1, y, o2, hr.randrange(3), cg),
                    "l": "\t".join(["L"] + list(hr.choice([a, b])) + ["ID:Z:zmx"]), "as": hr.choice(["str", "obj"])})
    return {"cfg": {"vlevel": vlevel, "order": mode, "early": early}, "ops": ops}


def stored_links(g):
    return [l for l in g.dovetails if l.record_type == "L" and not l.virtual]


def algebra(g, st):
    for l in stored_links(g):
        st.count("oracle.algebra")
        st.count("probe.algebra_checked")
        pos = ob.line_text(l).split("\t")[1:6]
        a, b = gtext.link_forms(pos)
        o = core.call(l.complement)
        if not o.ok:
            raise core.Violation("complement-raised", "complement() of %r raised %s" % (pos, o.excname), exc=o.excname)
        c = o.value
        cpos = tuple(ob.line_text(c).split("\t")[1:6])
        if cpos != b:
            raise core.Violation("complement-wrong", "complement of %r is %r, expected %r" % (pos, cpos, b))
        cc = core.call(c.complement)
        if not cc.ok or tuple(ob.line_text(cc.value).split("\t")[1:6]) != a:
            raise core.Violation("complement-not-involution", "complement(complement(%r)) = %r" %
                                 (pos, ob.line_text(cc.value) if cc.ok else cc.excname))
        if tuple(ob.line_text(l).split("\t")[1:6]) != a:
            raise core.Violation("complement-mutated-receiver", "after complement() the link %r writes as %r" %
                                 (pos, ob.line_text(l)))
        ov, cov = l.overlap, c.overlap
        if hasattr(ov, "length_on_reference"):
            if (ov.length_on_reference(), ov.length_on_query()) != (gtext.cigar_reflen(pos[4]), gtext.cigar_qlen(pos[4])):
                raise core.Violation("cigar-lengths", "lengths of %s: %r" % (pos[4], (ov.length_on_reference(), ov.length_on_query())))
            if (cov.length_on_reference(), cov.length_on_query()) != (ov.length_on_query(), ov.length_on_reference()):
                raise core.Violation("complement-lengths", "complement of %s does not exchange reference and query length" % pos[4])
        for (x, y) in ((l, c), (c, l)):
            r1 = (x.is_complement(y), x.is_eql(y), x.is_same(y))
            r2 = (x.is_complement(y), x.is_eql(y), x.is_same(y))
            if r1 != r2:
                raise core.Violation("equivalence-not-repeatable", "%r vs complement: %r then %r" % (pos, r1, r2))
            want_same = (a == b)
            if r1 != (True, True, want_same):
                raise core.Violation("equivalence-wrong",
                                     "%r vs its complement: is_complement,is_eql,is_same = %r" % (pos, r1))
        # the tags of a link and of its complement are the same; with a tag more or less on one side they are not,
        # whichever side is asked
        t0 = core.call(lambda: (l.are_tags_eql(c), c.are_tags_eql(l)))
        st.count("oracle.tags_eql")
        if t0.ok and t0.value != (True, True):
            raise core.Violation("equivalence-wrong", "%r vs its complement: are_tags_eql both ways = %r" %
                                 (ob.line_text(l), t0.value), what="tags")
        c2 = core.call(c.clone)
        if c2.ok:
            names = list(c2.value.tagnames)
            if names and len(pos[0]) % 2:
                e = core.call(c2.value.delete, names[-1])
            else:
                e = core.call(c2.value.set, "zq", 7)
            if e.ok and sorted(c2.value.tagnames) != sorted(l.tagnames):
                st.count("probe.tags_differ_one_side")
                t1 = core.call(lambda: (l.are_tags_eql(c2.value), c2.value.are_tags_eql(l)))
                if t1.ok and t1.value != (False, False):
                    raise core.Violation("equivalence-wrong", "%r vs %r (one tag apart): are_tags_eql both ways = %r" %
                                         (ob.line_text(l), ob.line_text(c2.value), t1.value), what="tags")
        if not (l.is_same(l) and l.is_eql(l)):
            raise core.Violation("equivalence-wrong", "%r is not the same as itself" % (pos,))
        if pos[4] != "*":
            # the same ends with an unspecified overlap: *compatible* with l (a search finds it), but neither the
            # same link nor its complement
            for form in (a, b):
                o2 = core.call(gfapy.Line, "\t".join(["L"] + list(form[:4]) + ["*"]), vlevel=l.vlevel)
                if not o2.ok:
                    continue
                st.count("oracle.star_variant")
                for (x, y) in ((l, o2.value), (o2.value, l)):
                    r = core.call(lambda: (x.is_same(y), x.is_complement(y), x.is_eql(y)))
                    if r.ok and r.value != (False, False, False):
                        raise core.Violation("equivalence-wrong", "%r vs %r (overlap unspecified): is_same,is_complement,"
                                             "is_eql = %r" % (pos, ob.line_text(o2.value), r.value), what="star")
        edited_algebra(l, pos, st)


def edited_algebra(l, pos, st):
    """The algebra holds for every link *value*: also for a link whose overlap was edited in place after a
    complement had been taken (the documented way to change an alignment), and two complements taken from
    one link are two values. Done on a stand-alone copy built from the text, so the Gfa is not touched."""
    # make_complement() (in place, on a stand-alone copy): the complement, and the link again when done twice
    mc = core.call(gfapy.Line, "\t".join(["L"] + list(pos)), vlevel=l.vlevel)
    if mc.ok:
        a0, b0 = gtext.link_forms(pos)
        st.count("oracle.make_complement")
        r1 = core.call(mc.value.make_complement)
        t1 = tuple(ob.line_text(mc.value).split("\t")[1:6])
        r2 = core.call(mc.value.make_complement)
        t2 = tuple(ob.line_text(mc.value).split("\t")[1:6])
        if not (r1.ok and r2.ok) or t1 != b0 or t2 != a0:
            raise core.Violation("complement-wrong", "make_complement() of %r gives %r (expected %r), twice %r" %
                                 (pos, t1, b0, t2), what="in-place")
    if pos[4] == "*":
        return
    o = core.call(gfapy.Line, "\t".join(["L"] + list(pos)), vlevel=l.vlevel)
    if not o.ok:
        return
    x = o.value
    c1 = core.call(x.complement)
    c2 = core.call(x.complement)
    if not (c1.ok and c2.ok) or not hasattr(x.overlap, "length_on_reference") or len(x.overlap) == 0:
        return
    st.count("probe.algebra_after_edit")
    st.count("oracle.algebra_after_edit")
    before = (ob.line_text(x), ob.line_text(c2.value))
    ed = core.call(lambda: setattr(c1.value.overlap[0], "length", c1.value.overlap[0].length + 3))
    if ed.ok and (ob.line_text(x), ob.line_text(c2.value)) != before:
        raise core.Violation("complement-shares-state",
                             "editing the overlap of one complement of %r changed %r into %r" %
                             (pos, before, (ob.line_text(x), ob.line_text(c2.value))))
    # in-place edit of the link's own overlap, then the algebra again on the new value
    def edit():
        x.overlap[-1].length += 2
        if len(x.overlap) > 1:
            x.overlap[0].code = {"I": "D", "D": "I"}.get(x.overlap[0].code, "I")
    if not core.call(edit).ok:
        return
    npos = ob.line_text(x).split("\t")[1:6]
    a, b = gtext.link_forms(npos)
    c = core.call(x.complement)
    if not c.ok:
        raise core.Violation("complement-raised", "complement() of the edited %r raised %s" % (npos, c.excname), exc=c.excname)
    cpos = tuple(ob.line_text(c.value).split("\t")[1:6])
    if cpos != b:
        raise core.Violation("complement-wrong-after-edit",
                             "overlap of %r edited in place to %s: its complement is %r, expected %r" %
                             (pos, npos[4], cpos, b))
    cc = core.call(c.value.complement)
    if not cc.ok or tuple(ob.line_text(cc.value).split("\t")[1:6]) != a:
        raise core.Violation("complement-not-involution", "complement(complement(%r)) = %r (after an in-place edit)" %
                             (npos, ob.line_text(cc.value) if cc.ok else cc.excname))
    ov, cov = x.overlap, c.value.overlap
    if (cov.length_on_reference(), cov.length_on_query()) != (ov.length_on_query(), ov.length_on_reference()):
        raise core.Violation("complement-lengths", "complement of the edited %s does not exchange reference and "
                             "query length" % npos[4])
    for (p, q) in ((x, c.value), (c.value, x)):
        if not (p.is_complement(q) and p.is_eql(q)):
            raise core.Violation("equivalence-wrong", "edited %r vs its complement: not equivalent" % (npos,))


def run(scn, st):
    w = World(st)
    m = Doc("gfa1")
    paths_pending = False
    for n, op in enumerate(scn["ops"]):
        k = op["op"]
        if k == "new":
            w.apply(op)
            continue
        g = w.gfa
        if g is None:
            continue
        st.step()
        st.count("op." + k)
        if k == "algebra":
            if g.version == "gfa1":
                algebra(g, st)
            continue
        if k == "mirror_of_containment":
            if g.version != "gfa1":
                continue
            # (on a second Gfa with the same content: the comparison with the model at the end is about the first)
            g2 = core.call(gfapy.Gfa, str(g), vlevel=g._vlevel, version="gfa1")
            if not g2.ok:
                continue
            g = g2.value
            o1 = core.call(g.add_line, op["c"])
            if not o1.ok:
                continue
            before = sorted(ob.text_lines(g))
            st.count("probe.mirror_of_containment")
            o2 = core.call(g.add_line, gfapy.Line(op["l"], vlevel=g._vlevel) if op["as"] == "obj" else op["l"])
            after = sorted(ob.text_lines(g))
            if o2.ok and after == before:
                raise core.Violation("containment-taken-for-complement", "%r is stored; %r (same identifier) was neither "
                                     "refused nor stored" % (op["c"], op["l"]))
            if not o2.ok and o2.kind == "gfapy" and after != before:
                raise core.Violation("containment-taken-for-complement", "%r is stored; %r was refused (%s) but the Gfa "
                                     "changed" % (op["c"], op["l"], o2.excname))
            continue
        if k == "hold_complement":
            ls = stored_links(g) if g.version == "gfa1" else []
            if ls:
                src = ls[op["i"] % len(ls)]
                c = core.call(src.complement)
                if c.ok:
                    w.held_c = (c.value, ob.line_text(src))
                    st.count("probe.complement_held_early")
                    if any(x.virtual for x in (src.from_segment, src.to_segment) if isinstance(x, gfapy.Line)):
                        st.count("probe.complement_of_link_with_placeholders")
            continue
        if k == "add_held":
            held = getattr(w, "held_c", None)
            if held is None or g.version != "gfa1" or m.unspecified:
                continue
            c, srctext = held
            src = [l for l in stored_links(g) if ob.line_text(l) == srctext]
            if not src:
                continue
            st.count("oracle.held_complement")
            if op.get("rm_first") and m.settled():
                rec = m.find(srctext)
                if rec is None or any(q.rt == "P" for q in m.recs):
                    continue
                r0 = core.call(g.rm, src[0])
                if not r0.ok:
                    continue
                m.remove([rec])
                nlinks = len(stored_links(g))
                ctext = ob.line_text(c)
                out = core.call(g.add_line, c)
                st.count("probe.held_complement_after_removal")
                if m.add_text(ctext) != "ok":
                    m.unspecified = "held complement not addable in the model"
                    continue
                if not out.ok:
                    raise core.Violation("different-link-rejected", "the stored %r was removed; its complement %r (taken "
                                         "earlier) raised %s: %s" % (srctext, ctext, out.excname, str(out.exc)[:200]),
                                         exc=out.excname, frame=out.frame)
                try:
                    from .. import inv as _inv
                    _inv.closed_symmetric(g)
                except Exception as b:
                    raise core.Violation("held-complement-miswired", "the stored %r was removed and its complement %r "
                                         "(taken earlier) added: %s" % (srctext, ctext, getattr(b, "detail", b)))
                if len(stored_links(g)) != nlinks + 1:
                    raise core.Violation("different-link-not-stored", "%r accepted but the stored links went %d -> %d" %
                                         (ctext, nlinks, len(stored_links(g))))
                for sname in set(ctext.split("\t")[1:4:2]):
                    sg = g.segment(sname)
                    if sg is None or not any(ob.line_text(x) == ctext for x in sg.dovetails):
                        raise core.Violation("held-complement-miswired", "segment %s does not list %r (added after the "
                                             "removal of its complement form)" % (sname, ctext))
                continue
            for (x, y) in ((src[0], c), (c, src[0])):
                r1 = core.call(lambda: (x.is_complement(y), x.is_eql(y)))
                r2 = core.call(lambda: (x.is_complement(y), x.is_eql(y)))
                if not (r1.ok and r2.ok) or r1.value != r2.value or r1.value != (True, True):
                    raise core.Violation("equivalence-wrong", "the complement of %r, taken earlier during the delivery, "
                                         "is no longer recognised as its complement: %r" %
                                         (srctext, r1.value if r1.ok else r1.excname), when="held")
            pre = ob.observe(g)
            out = core.call(g.add_line, c)
            if not out.ok:
                raise core.Violation("complement-rejected", "the complement of the stored %r (taken earlier) raised %s: %s" %
                                     (srctext, out.excname, str(out.exc)[:200]), exc=out.excname, frame=out.frame)
            post = ob.observe(g)
            if post != pre:
                from .c08 import diff_obs
                raise core.Violation("complement-changed-gfa", "adding the complement of the stored %r (taken earlier "
                                     "during the delivery) changed the Gfa: %s" % (srctext, diff_obs(pre, post)), when="held")
            continue
        if k == "foreign_complement":
            if g.version != "gfa1" or m.unspecified:
                continue
            f = op["line"].split("\t")
            g2 = core.call(gfapy.Gfa, ["S\t%s\t*" % f[1]] + (["S\t%s\t*" % f[3]] if f[3] != f[1] else []) + [op["line"]],
                           version="gfa1", vlevel=g.vlevel)
            if not g2.ok or not g2.value.dovetails:
                continue
            c = core.call(g2.value.dovetails[0].complement)
            if not c.ok:
                continue
            ctext = ob.line_text(c.value)
            res = m.copy().add_text(ctext)
            nlinks = len(stored_links(g))
            pre = ob.observe(g)
            out = core.call(g.add_line, c.value)
            st.count("probe.complement_of_foreign_link")
            st.count("oracle.foreign_complement")
            if res == "ok":
                m.add_text(ctext)
                if not out.ok:
                    raise core.Violation("different-link-rejected", "%r (the complement of a link of another Gfa) is no "
                                         "edge of this Gfa but raised %s" % (ctext, out.excname), exc=out.excname, frame=out.frame)
                if len(stored_links(g)) != nlinks + 1:
                    raise core.Violation("different-link-not-stored", "%r (the complement of a link of another Gfa) was "
                                         "accepted but the stored links went %d -> %d" % (ctext, nlinks, len(stored_links(g))))
                try:
                    from .. import inv
                    inv.closed_symmetric(g)
                except Exception as b:
                    raise core.Violation("foreign-lines-reachable", "after adding %r (taken from another Gfa): %s" %
                                         (ctext, getattr(b, "detail", b)))
            elif res == "dup-complement":
                if not out.ok or ob.observe(g) != pre:
                    raise core.Violation("complement-changed-gfa", "%r equals or complements a stored link; adding it %s" %
                                         (ctext, "raised " + out.excname if not out.ok else "changed the Gfa"), when="foreign")
            else:
                m.unspecified = "merely compatible link offered"
            continue
        if k in ("add", "flush"):
            out = w.apply(dict(op)) if k == "flush" else w.apply({"op": "add", "line": op["line"], "as": op.get("as", "str")})
            if k == "add":
                res = m.add_text(op["line"])
                if res not in ("ok", "merged", "dup-complement"):
                    return
                if not out.ok:
                    raise core.Violation("legal-rejected", "step %d: %r raised %s: %s" %
                                         (n, op["line"], out.excname, str(out.exc)[:200]), exc=out.excname, frame=out.frame)
                f = op["line"].split("\t")
                if f[0] == "L":
                    if any(c in f[5] for c in "ID"):
                        st.count("probe.asym_cigar")
                    if f[1] == f[3]:
                        st.count("probe.self_link" if f[2] == f[4] else "probe.hairpin")
            continue
        if g.version is None:
            # undecided version: everything is queued; apply without per-step expectations
            res = m.copy().add_text(op["line"])
            if res not in ("ok", "merged", "dup-complement"):
                return      # not a document the claim covers (identical / merely compatible link twice)
            w.apply({"op": "add", "line": op["line"], "as": "str"})
            m.add_text(op["line"])
            continue
        if k == "dup_complement":
            mm = m.copy()
            res = mm.add_text(op["line"])
            if res != "dup-complement":
                # the stored link is not there (yet): this is an ordinary add
                out = w.apply({"op": "add", "line": op["line"], "as": op.get("as", "str")})
                if res in ("ok",):
                    m.add_text(op["line"])
                    if not out.ok:
                        raise core.Violation("legal-rejected", "step %d: %r raised %s" % (n, op["line"], out.excname),
                                             exc=out.excname, frame=out.frame)
                elif not out.ok:
                    pass
                else:
                    m.unspecified = "unspecified link accepted"
                    return
                continue
            st.count("probe.dup_complement")
            st.count("fault.dup_complement")
            if any(x.rt == "P" for x in m.recs) is False and any(o2["op"] == "add_path" for o2 in scn["ops"][n:]):
                st.count("probe.dup_complement_before_path")
            pre = ob.observe(g)
            out = w.apply({"op": "add", "line": op["line"], "as": op.get("as", "str")})
            st.count("oracle.complement_noop")
            if not out.ok:
                raise core.Violation("complement-rejected",
                                     "step %d: the complement %r of a stored link raised %s: %s" %
                                     (n, op["line"], out.excname, str(out.exc)[:200]), exc=out.excname, frame=out.frame)
            post = ob.observe(g)
            if post != pre:
                from .c08 import diff_obs
                raise core.Violation("complement-changed-gfa", "step %d: adding the complement %r changed the Gfa: %s" %
                                     (n, op["line"], diff_obs(pre, post)))
            st.state(digest([pre["lines"], "dup"]))
        elif k == "variant":
            mm = m.copy()
            res = mm.add_text(op["line"])
            nlinks = len(stored_links(g))
            out = w.apply({"op": "add", "line": op["line"], "as": "str"})
            if res == "ok":
                st.count("probe.variant_second_edge")
                st.count("oracle.second_edge")
                m.add_text(op["line"])
                if not out.ok:
                    raise core.Violation("different-link-rejected",
                                         "step %d: %r differs from every stored link by more than the complement "
                                         "symmetry but raised %s" % (n, op["line"], out.excname), exc=out.excname,
                                         frame=out.frame)
                # a placeholder created by a path may have been replaced instead of a new edge being added
                if len(stored_links(g)) != nlinks + 1:
                    raise core.Violation("different-link-not-stored",
                                         "step %d: %r accepted but the number of stored links went %d -> %d" %
                                         (n, op["line"], nlinks, len(stored_links(g))))
            elif res == "dup-complement":
                if not out.ok:
                    raise core.Violation("complement-rejected", "step %d: %r raised %s" % (n, op["line"], out.excname),
                                         exc=out.excname, frame=out.frame)
            else:
                if out.ok and res != ("fail", "NotUnique"):
                    m.unspecified = "unspecified variant accepted"
                    return
        elif k == "add_path":
            mm = m.copy()
            res = mm.add_text(op["line"])
            out = w.apply({"op": "add", "line": op["line"], "as": "str"})
            if res == "ok":
                m.add_text(op["line"])
                if not out.ok:
                    raise core.Violation("path-rejected", "step %d: %r raised %s: %s" %
                                         (n, op["line"], out.excname, str(out.exc)[:200]), exc=out.excname, frame=out.frame)
                if op.get("reversed"):
                    st.count("probe.path_reversed_traversal")
                if op.get("mixed"):
                    st.count("probe.path_overlaps_partly_given")
                if mm.dangling():
                    st.count("probe.path_before_link")
        # ---- path resolution invariant after every step of the tail
        check_paths(g, m, st, n, op)
    if w.gfa is not None and w.gfa.version == "gfa1" and m.unspecified is None:
        check_paths(w.gfa, m, st, len(scn["ops"]), {"op": "end"})
        if m.settled():
            got = gtext.canon_doc(ob.text_lines(w.gfa), "gfa1")
            st.count("oracle.text_equals_model")
            if got != m.canon():
                extra = [x for x in got if x not in m.canon()]
                missing = [x for x in m.canon() if x not in got]
                raise core.Violation("text-differs-from-model", "end of run: extra %r missing %r" % (extra[:3], missing[:3]))


def check_paths(g, m, st, n, op):
    a = ob.abstract(g)
    settled = m.settled() and not any(len(m.find_links(*lk)) > 1 for q in m.recs if q.rt == "P"
                                      for lk in m.path_links(q))
    st.count("oracle.path_resolution")
    for pn, trav in a["paths"].items():
        prec = m.by_name(pn)
        for idx, t in enumerate(trav):
            if not isinstance(t, list):
                continue
            key, virtual, ok = t
            if not ok:
                raise core.Violation("path-link-orientation",
                                     "after step %d %r: path %s records the wrong traversal direction for %r" %
                                     (n, op.get("line", op["op"]), pn, key))
            # which link a step is bound to is only defined once every path requirement is defined
            # (a placeholder link demanded by another path is a second, arrival-order dependent candidate)
            if prec is not None and settled:
                lks = m.path_links(prec)
                if idx < len(lks):
                    cands = m.find_links(*lks[idx])
                    if cands and virtual:
                        raise core.Violation("path-missed-stored-link",
                                             "after step %d %r: path %s uses a placeholder for %r although %r is stored" %
                                             (n, op.get("line", op["op"]), pn, lks[idx], cands[0][0].render()))
                    if not cands and not virtual:
                        raise core.Violation("path-bound-to-wrong-link",
                                             "after step %d: path %s step %r is bound to %r which does not fit" %
                                             (n, pn, lks[idx], key))


from .c02 import simplify  # noqa: E402,F401
