"""C04 — validation accepts exactly the grammar (PARTLY decided, see DESIGN §6/C04).

Decided here: (a) record-corruption faults — single-point mutations of valid
generated records (one character replaced / inserted / deleted, a field dropped
or duplicated, a tag's type letter changed) — judged by an independent
recogniser written from the specification (sim/recognise.py); (b) document-
level rules through fault histories (record loss leaving an undefined
identifier, `$` against the segment length, LN vs sequence, path overlap count,
begin > end). NOT decided: the bounded-exhaustive enumeration of all short
strings per datatype (enumeration of a pure function's input space is out of
this technique's family); evidence says exhaustive: false.
"""
import gfapy
from .. import gen as G, core, gtext
from ..model import Doc
from ..recognise import recognise
from ..world import World
from ..rng import digest
from .c07 import corrupt

PROP = "C04"
RUNS = {"quick": 30000, "thorough": 500000}
WALL = {"quick": 280, "thorough": 3500}
RULE = ("one run = a generated valid document; each record checked valid, then 1-6 single-point "
        "mutations judged by the independent recogniser at vlevel 1-3; then one document-level fault; "
        "distinct = distinct mutated record texts with a definite verdict; NOT an exhaustive enumeration")
PROBES = ["valid_record_accepted", "mutation_invalid", "mutation_still_valid", "mutation_unspecified",
          "doc_undefined_identifier", "doc_dollar_mismatch", "doc_ln_mismatch", "doc_path_overlap_count",
          "doc_begin_gt_end", "doc_rgfa", "doc_hdr_types", "doc_rgfa_link_tag", "doc_frag_dollar"]
ASSUMPTIONS = ["sim/recognise.py transcribes the GFA1/GFA2 grammars; cases where the specifications are silent are "
               "skipped (verdict 'unspec')",
               "bounded-exhaustive enumeration per datatype is NOT performed (out of the technique's family)"]


def gen(streams, tier, i):
    cfg = streams.get("config")
    k = G.swarm_knobs(cfg)
    k.update({"p_tags": 0.8, "max_tags": 3, "p_seq": 0.8, "lens": False, "names": cfg.choice(["alpha", "mixed", "int"])})
    doc = G.gen_doc(streams.get("document"), k)
    fr = streams.get("faults")
    lines = doc["lines"]
    ops = []
    cand = [ln for ln in lines if not ln.startswith("#")]
    for _ in range(fr.randint(1, 6)):
        if not cand:
            break
        ln = fr.choice(cand)
        kind, new = corrupt(fr, ln)
        ops.append({"op": "mutate", "orig": ln, "line": new, "kind": kind})
    docfault = fr.choice(["undefined", "dollar", "ln", "path_count", "begin_gt_end", "rgfa", "hdr_types", "rgfa_link_tag", "frag_dollar", None])
    ops.append({"op": "docfault", "kind": docfault, "pick": fr.randrange(1000)})
    return {"cfg": {"version": doc["version"]}, "lines": lines, "ops": ops}


def line_verdict(text, version, lvl):
    """what gfapy does with one record at level lvl: 'accepted' / 'rejected' / ('foreign', exc)"""
    rt = text.split("\t")[0]
    v = None if (rt == "H" or text.startswith("#")) else version
    o = core.call(gfapy.Line, text, vlevel=lvl, version=v)
    if not o.ok:
        return ("rejected", o) if o.kind == "gfapy" else ("foreign", o)
    if o.value.record_type not in (rt, "#") and o.value.record_type != rt:
        pass
    if version == "gfa2" and o.value.__class__.__name__ == "CustomRecord":
        return ("custom", o)
    v2 = core.call(o.value.validate)
    if not v2.ok:
        return ("rejected-by-validate", v2) if v2.kind == "gfapy" else ("foreign", v2)
    return ("accepted", o)


def run(scn, st):
    version = scn["cfg"]["version"]
    lines = scn["lines"]
    m = Doc(version)
    for ln in lines:
        if m.add_text(ln) not in ("ok", "merged", "dup-complement"):
            return
    if not m.settled():
        return
    # ---- every generated record is valid: accepted at levels 1-3 and validate() passes
    for ln in lines:
        if recognise(ln, version) != "valid":
            continue
        for lvl in (1, 2, 3):
            verdict, o = line_verdict(ln, version, lvl)
            st.count("oracle.valid_accepted")
            if verdict in ("rejected", "foreign"):
                raise core.Violation("valid-rejected", "vlevel %d: valid %s record %r is rejected: %s: %s" %
                                     (lvl, version, ln, o.excname, str(o.exc)[:200]), rt=ln.split("\t")[0], exc=o.excname,
                                     frame=o.frame)
        st.count("probe.valid_record_accepted")
    for op in scn["ops"]:
        st.step()
        st.count("op." + op["op"])
        if op["op"] == "mutate":
            text = op["line"]
            st.count("fault.corrupt_" + op["kind"])
            rec = recognise(text, version)
            # whatever the verdict on the text: a line built at level 3 (everything is validated while it is
            # built) passes its own validate()
            verdict3, o3 = line_verdict(text, version, 3)
            st.count("oracle.level3_construction_consistent")
            from ..recognise import _LONGNUM
            if verdict3 == "rejected-by-validate" and not _LONGNUM.search(text):
                raise core.Violation("level3-accepted-then-refused",
                                     "%r (%s of %r) is accepted by Line(..., vlevel=3) and then refused by its validate(): %s: %s" %
                                     (text, op["kind"], op["orig"], o3.excname, str(o3.exc)[:160]),
                                     rt=text.split("\t")[0][:2], exc=o3.excname)
            if rec == "unspec":
                st.count("probe.mutation_unspecified")
                continue
            st.count("probe.mutation_invalid" if rec == "invalid" else "probe.mutation_still_valid")
            st.state(digest([text, rec]))
            for lvl in (1, 2, 3):
                verdict, o = line_verdict(text, version, lvl)
                st.count("oracle.mutation_verdict")
                if verdict == "custom" or verdict == "foreign":
                    continue      # a custom record / C07's business
                if rec == "invalid" and verdict == "accepted":
                    raise core.Violation("invalid-accepted",
                                         "vlevel %d: %r (%s of %r) violates the %s grammar but is accepted and validate() passes" %
                                         (lvl, text, op["kind"], op["orig"], version), rt=text.split("\t")[0][:2],
                                         field=which_field(op["orig"], text))
                if rec == "valid" and verdict in ("rejected", "rejected-by-validate"):
                    raise core.Violation("valid-rejected",
                                         "vlevel %d: %r (%s of %r) conforms to the %s grammar but is rejected: %s: %s" %
                                         (lvl, text, op["kind"], op["orig"], version, o.excname, str(o.exc)[:200]),
                                         rt=text.split("\t")[0][:2], exc=o.excname, frame=o.frame)
        elif op["op"] == "docfault" and op["kind"]:
            docfault(scn, m, op, st)


def which_field(a, b):
    fa, fb = a.split("\t"), b.split("\t")
    for i, (x, y) in enumerate(zip(fa, fb)):
        if x != y:
            return i
    return min(len(fa), len(fb))


def docfault(scn, m, op, st):
    version = scn["cfg"]["version"]
    lines = list(scn["lines"])
    kind = op["kind"]
    pick = op["pick"]
    dialect = "standard"
    if kind == "undefined":
        # loss fault: a defining record never arrives
        ment = sorted(m.all_mentions())
        defs = [i for i, ln in enumerate(lines) if ln.split("\t")[0] in ("S", "E", "G", "O", "U") and
                len(ln.split("\t")) > 1 and ln.split("\t")[1] in ment]
        if not defs:
            return
        del lines[defs[pick % len(defs)]]
    elif kind == "dollar":
        cand = [i for i, ln in enumerate(lines) if ln.split("\t")[0] == "E" and "$" in ln]
        if version != "gfa2" or not cand:
            return
        i = cand[pick % len(cand)]
        f = lines[i].split("\t")
        segs = dict((l.split("\t")[1], l.split("\t")) for l in lines if l.startswith("S\t"))
        done = False
        for j, sidx in ((5, 2), (7, 3)):
            if f[j].endswith("$"):
                s = segs.get(f[sidx][:-1])
                if s is None or s[3] == "*":
                    continue
                val = int(f[j][:-1])
                if val > 0 and int(f[j - 1].rstrip("$")) <= val - 1 and not f[j - 1].endswith("$"):
                    f[j] = "%d$" % (val - 1)
                    done = True
                    break
        if not done:
            return
        lines[i] = "\t".join(f)
    elif kind == "ln":
        cand = [i for i, ln in enumerate(lines) if ln.startswith("S\t") and version == "gfa1" and ln.split("\t")[2] != "*"]
        if not cand:
            return
        i = cand[pick % len(cand)]
        f = [x for x in lines[i].split("\t") if not x.startswith("LN:")]
        lines[i] = "\t".join(f + ["LN:i:%d" % (len(f[2]) + 1 + pick % 3)])
    elif kind == "path_count":
        cand = [i for i, ln in enumerate(lines) if ln.startswith("P\t") and len(ln.split("\t")[2].split(",")) >= 3]
        if not cand:
            return
        i = cand[pick % len(cand)]
        f = lines[i].split("\t")
        n = len(f[2].split(","))
        f[3] = ",".join(["1M"] * (n + 1 + pick % 2) if pick % 2 else ["1M"] * max(1, n - 2))
        if len(f[3].split(",")) in (n, n - 1):
            return
        lines[i] = "\t".join(f)
    elif kind == "begin_gt_end":
        cand = [i for i, ln in enumerate(lines) if ln.split("\t")[0] == "E"]
        if not cand:
            return
        i = cand[pick % len(cand)]
        f = lines[i].split("\t")
        b, e = int(f[4].rstrip("$")), int(f[5].rstrip("$"))
        if e == 0 or f[4].endswith("$"):
            return
        f[4], f[5] = str(e), str(max(0, e - 1))
        if int(f[4]) <= int(f[5]):
            return
        lines[i] = "\t".join(f)
    elif kind == "hdr_types":
        # one header tag defined on two H lines with two datatypes: whatever a level decides, it decides it
        # consistently (built => the Gfa, its header and every line validate and the text can be written)
        a, b = [("zt:i:1", "zt:Z:abc"), ("zt:Z:abc", "zt:i:1"), ("zt:J:[1]", "zt:Z:x"), ("zt:f:1.5", "zt:i:2")][pick % 4]
        lines = ["H\t" + a] + lines + ["H\t" + b]
        st.count("probe.doc_hdr_types")
        for lvl in (1, 2, 3):
            w = World(st)
            o = w.construct("list", lines, vlevel=lvl)
            st.count("oracle.document_rule")
            if not o.ok:
                continue
            g = o.value
            for what, fn in (("gfa.validate()", g.validate), ("gfa.header.validate()", g.header.validate),
                             ("str(gfa)", lambda: str(g)),
                             ("validate() of the header lines", lambda: [x.validate() for x in g.headers])):
                r = core.call(fn)
                if not r.ok and r.kind == "gfapy":
                    raise core.Violation("accepted-document-fails-validation",
                                         "vlevel %d: %r and %r are accepted, then %s raises %s" % (lvl, a, b, what, r.excname),
                                         rule=kind)
                if r.ok and what == "str(gfa)" and "# INVALID" in r.value:
                    raise core.Violation("accepted-document-fails-validation",
                                         "vlevel %d: %r and %r are accepted, the Gfa is written with an INVALID marker" %
                                         (lvl, a, b), rule=kind)
        return
    elif kind == "rgfa_link_tag":
        # a document of the rGFA dialect which is right (stable names and offsets on the segments, blunt links,
        # nothing else) except that one optional link tag with a prescribed datatype (SR, L1, L2: i) has another
        n = 2 + pick % 3
        lines = ["S\tr%d\t%s\tSN:Z:chr%d\tSO:i:%d\tSR:i:%d" % (j, ["*\tLN:i:7", "ACGTA"][(pick >> j) & 1], j % 2, 10 * j, j % 2)
                 for j in range(n)]
        good = ["SR:i:0", "L1:i:3", "L2:i:4"]
        bad = ["SR:Z:0", "L1:f:3.0", "L2:B:C,2", "SR:A:x", "L1:Z:12", "L2:J:2", "SR:f:1.0", "L2:H:1F", "L1:B:i,3"][(pick // 3) % 9]
        keep = [t for t in good if t[:2] != bad[:2] and (pick >> (3 + good.index(t))) & 1]
        tags = keep + [bad] if pick % 2 else [bad] + keep
        for j in range(n - 1):
            lines.append("L\tr%d\t+\tr%d\t%s\t0M" % (j, j + 1, "+-"[(pick >> j) & 1]) +
                         ("\t" + "\t".join(tags) if j == (pick // 7) % (n - 1) else "\tSR:i:1" if j % 2 else ""))
        dialect = "rgfa"
        # the same document with the tag of the right datatype is accepted (otherwise the refusal says nothing)
        okl = [ln.replace(bad, [t for t in good if t[:2] == bad[:2]][0]) for ln in lines]
        o = World(st).construct("list", okl, vlevel=1, dialect="rgfa")
        if not (o.ok and core.call(o.value.validate).ok):
            st.count("probe.doc_rgfa_base_refused")
            return
    elif kind == "frag_dollar":
        # GFA2: a fragment on a segment with a real sequence where a segment-side position carries a '$' without
        # being the last position of the segment
        if version != "gfa2":
            return
        segs = [l.split("\t") for l in lines if l.startswith("S\t") and l.split("\t")[3] != "*" and
                l.split("\t")[2].isdigit() and int(l.split("\t")[2]) == len(l.split("\t")[3]) and len(l.split("\t")[3]) >= 2]
        if not segs:
            return
        s = segs[pick % len(segs)]
        n = len(s[3])
        k = (pick // 5) % n                      # 0 <= k < n
        var = (pick // 3) % 3
        if var == 0:
            sb, se = "%d$" % k, "%d$" % n        # both carry a $, only the end is the last position
        elif var == 1:
            sb, se = str(k // 2), "%d$" % max(k, 1) if max(k, 1) < n else "%d$" % (n - 1)
        else:
            sb, se = "%d$" % k, "%d$" % k if k else "0$"
        f = "F\t%s\tzzread%s\t%s\t%s\t0\t%d\t*" % (s[1], "+-"[pick % 2], sb, se, 1 + pick % 9)
        at = pick % (len(lines) + 1)
        lines = lines[:at] + [f] + lines[at:]
        # the same fragment with a position without '$' is accepted
        okf = "F\t%s\tzzread%s\t%d\t%d$\t0\t%d\t*" % (s[1], "+-"[pick % 2], k, n, 1 + pick % 9)
        o = World(st).construct("list", lines[:at] + [okf] + lines[at + 1:], vlevel=1)
        if not (o.ok and core.call(o.value.validate).ok):
            st.count("probe.doc_frag_base_refused")
            return
    elif kind == "rgfa":
        if version != "gfa1":
            return
        dialect = "rgfa"     # generated documents lack the mandatory SN/SO/SR tags / have headers, paths...
        if not any(ln.split("\t")[0] in ("S", "H", "P", "C") for ln in lines):
            return
    probe = {"undefined": "doc_undefined_identifier", "dollar": "doc_dollar_mismatch", "ln": "doc_ln_mismatch",
             "path_count": "doc_path_overlap_count", "begin_gt_end": "doc_begin_gt_end", "rgfa": "doc_rgfa",
             "rgfa_link_tag": "doc_rgfa_link_tag", "frag_dollar": "doc_frag_dollar"}[kind]
    st.count("probe." + probe)
    st.count("fault.doc_" + kind)
    for lvl in (1, 2, 3):
        w = World(st)
        o = w.construct("list", lines, vlevel=lvl, dialect=dialect)
        st.count("oracle.document_rule")
        if o.ok:
            v = core.call(o.value.validate)
            if v.ok:
                raise core.Violation("invalid-document-accepted",
                                     "vlevel %d: document with fault %r is accepted and gfa.validate() passes: %r" %
                                     (lvl, kind, [l for l in lines if l not in scn["lines"]][:2]), rule=kind)
        elif o.kind != "gfapy":
            pass     # C07's business
