"""C18 — validation levels only change when errors surface, never the result.

Four replicas (vlevel 0,1,2,3) are fed the same history in lock-step.
 arm A: legal histories (C05 workload): same outcome and same (normalised) text
        after every step at all four levels.
 arm B: corrupted records (transport fault): acceptance is monotonic — accepted
        at level k implies accepted at every lower level.
 arm C: assignments with valid / invalid values followed by reads, writes and
        validations: surfacing order of the error per level.
"""
import math
import gfapy
from .. import gen as G, hist, core, gtext
from ..world import World
from ..rng import digest
from .. import observe as ob
from . import c05
from .c07 import corrupt

PROP = "C18"
RUNS = {"quick": 6000, "thorough": 150000}
WALL = {"quick": 280, "thorough": 3500}
RULE = ("one run = one of three arms on four replicas (vlevel 0-3); distinct = distinct (arm, op, "
        "outcome vector) tuples x state digest")
PROBES = ["arm_history", "arm_corrupt", "arm_assign", "corrupt_accepted_somewhere", "corrupt_rejected_somewhere",
          "invalid_assignment", "valid_assignment", "surfaced_at_write", "surfaced_at_validate", "repaired",
          "repeated_header_tag", "custom_taglike",
          "header_add", "header_add_multi", "custom_record_field", "accessor_chain"]

ASSIGN = {
    # datatype: (valid python values, invalid python values)
    "i": ([5, -3, "12"], ["a b", {"__t": "float", "v": 2.5}, [1], {"__t": "bool", "v": True}, "12\n"]),
    "f": ([{"__t": "float", "v": 1.5}, 3, "1e5"], ["x", {"__t": "float", "v": "nan"}, [1], {"__t": "bool", "v": False},
                                                   "1e999", "1.5\n"]),
    "Z": (["abc", "a b:c"], ["a\tb", 5, "", "abc\n"]),
    "A": (["c", "!"], ["cc", 1, "", "c\n"]),
    "J": ([{"a": 1}, [1, "x"], '{"k": 2}'], ["{", 5, "1", "null", "[NaN]", '"abc"']),
    "H": ([{"__t": "bytearray", "v": [1, 2]}, "0AFF"], ["0a", "XYZ", "ABC", {"__t": "bytearray", "v": []}, "0A\n"]),
    "B": ([[1, 2], {"__t": "floatlist", "v": [1.5]}, "C,1,2"],
          [[1, 2.5], [1.5, 2, 3], [True, 2], [2 ** 40], "C,300", "c,1,", 7, {"__t": "numarray", "v": []}, {"__t": "floatlist", "v": ["nan"]},
           {"__t": "boollist", "v": [True, False]}, "f,1e999", {"__t": "floatlist", "v": ["inf", 1.0]}]),
}


# positional (non-reference) fields: (record type, version) -> field -> (valid, invalid)
POSASSIGN = {
    ("S", "gfa1"): {"sequence": (["ACGT", "*", "acgtN"], ["AC GT", "1*", "A\tC", "ACGT\n"]),
                    "name": (["nn1"], ["x\n", "a b", ""])},
    ("S", "gfa2"): {"sequence": (["ACGT", "*"], ["AC GT", "A\tC"]),
                    "slen": ([7, "12"], ["x", "1 2", "-", {"__t": "bool", "v": True}, "4\n"])},
    ("G", "gfa2"): {"disp": ([10, "-4"], ["x", "1.5", {"__t": "bool", "v": True}]), "var": ([3, "*"], ["x", "1.5"])},
    ("F", "gfa2"): {"f_beg": ([0, "3"], ["x", "-1", {"__t": "bool", "v": True}]),
                    "alignment": (["*", "3M"], ["3Q", "M", "1,x"])},
    ("L", "gfa1"): {"overlap": (["3M", "*", {"__t": "cigar", "v": "2M1I", "version": "gfa1"}], ["3Q", "M3", "4M\n"]),
                    "from_orient": (["+", "-"], ["x", "++"])},
    ("C", "gfa1"): {"pos": ([3, "0"], ["x", "-1", {"__t": "float", "v": 1.5}, {"__t": "bool", "v": True}]),
                    "overlap": (["3M", "*"], ["3Q"])},
    ("E", "gfa2"): {"alignment": (["*", "3M", "1,2", {"__t": "cigar", "v": "2M1D", "version": "gfa2"}],
                                  ["3Q", "M", {"__t": "cigar", "v": "4S", "version": "gfa1"},
                                   {"__t": "cigar", "v": "2M1N", "version": "gfa1"}, {"__t": "oline"}, {"__t": "lastpos"}]),
                    "beg1": ([0, "0"], ["x", "$", {"__t": "bool", "v": False}])},
    ("#", "gfa1"): {"content": (["hello", "a b"], [5, {"__t": "emptylist"}]), "spacer": ([" ", ""], [0])},
    ("#", "gfa2"): {"content": (["hello", "a b"], [5, {"__t": "emptylist"}]), "spacer": ([" ", ""], [0])},
    ("P", "gfa1"): {"overlaps": (["*", {"__t": "placeholder"}, {"__t": "alnplaceholder"}],
                                 ["3Q", "4M,,4M", {"__t": "emptylist"}, {"__t": "tracelist"}]),
                    "segment_names": (["nn1+,nn2-"], [{"__t": "emptylist"}, "a+,+,b+", "a+,=b+"])},
}


def pyval(v):
    from .c20 import pyval as pv
    if isinstance(v, dict) and "__t" in v:
        t = v["__t"]
        if t == "bool":
            return bool(v["v"])
        if t == "boollist":
            return [bool(x) for x in v["v"]]
        if t == "cigar":
            return gfapy.Alignment(v["v"], version=v["version"], valid=True)
        if t == "placeholder":
            return gfapy.Placeholder()
        if t == "alnplaceholder":
            return gfapy.AlignmentPlaceholder()
        if t == "emptylist":
            return []
        if t == "tracelist":
            return [gfapy.Trace([1])]
        if t == "oline":
            return gfapy.OrientedLine("a", "+")
        if t == "lastpos":
            return gfapy.LastPos(1)
    return pv(v)


def gen(streams, tier, i):
    cfg = streams.get("config")
    arm = cfg.choice(["history", "history", "corrupt", "assign", "assign"])
    if arm == "history":
        scn = c05.gen(streams, tier, i)
        if cfg.random() < 0.3:
            # repeated custom header tags (three H lines)
            t = cfg.choice(["xx:i:1", "xx:Z:a", "xx:J:[1]"])
            for _ in range(3):
                scn["ops"].insert(1, {"op": "add", "line": "H\t" + t, "as": "str"})
        if scn["cfg"].get("version") == "gfa2" and cfg.random() < 0.3:
            # custom records whose trailing fields look like tags without being valid ones: which fields are
            # tags must not depend on the level
            for _ in range(cfg.randint(1, 2)):
                ln = cfg.choice(["XQ\ta\txx:J:{bad", "XQ\ta\txx:H:1a", "XQ\txx:i:1\txx:i:2", "XQ\tb\tyy:B:c,\tzz:i:5",
                                 "XQ\tc\tzz:f:1e999", "XQ\tzz:Z:ok\tb", "XQ\td\txx:i:1\tyy:i:x\tzz:i:3",
                                 "XQ\txx:A:ab\txx:A:c"])
                scn["ops"].insert(cfg.randint(1, len(scn["ops"])), {"op": "add", "line": ln, "as": "str"})
            scn["cfg"]["custom_taglike"] = True
        scn["cfg"]["arm"] = arm
        return scn
    k = G.swarm_knobs(cfg)
    k["p_tags"] = 0.8
    doc = G.gen_doc(streams.get("document"), k)
    if arm == "corrupt":
        fr = streams.get("faults")
        lines = list(doc["lines"])
        ops = []
        for _ in range(fr.randint(1, 3)):
            if not lines:
                break
            j = fr.randrange(len(lines))
            kind, new = corrupt(fr, lines[j])
            ops.append({"op": "corrupt_line", "orig": lines[j], "line": new, "kind": kind})
            doc2 = list(lines)
            doc2[j] = new
            ops.append({"op": "corrupt_doc", "lines": doc2, "kind": kind, "entry": fr.choice(["list", "str", "file_lf"])})
        return {"cfg": {"version": doc["version"], "arm": arm}, "lines": lines, "ops": ops}
    ar = streams.get("history")
    lines = list(doc["lines"])
    if ar.random() < 0.6:
        # the lines arrive in a scheduled order (which branch of add_line creates a line depends on it)
        lines, _m = hist.schedule(streams.get("schedule"), lines)
    ops = []
    for _ in range(ar.randint(0, 3)):
        ops.append({"op": "posassign", "li": ar.randrange(1000), "fi": ar.randrange(1000), "valid": ar.random() < 0.4,
                    "vi": ar.randrange(1000), "reads": ar.randint(0, 2)})
    for _ in range(ar.randint(0, 2)):
        # a brand-new tag, no datatype declared: the default datatype applies (i, f, Z, J, B, H)
        valid = ar.random() < 0.3
        pool = ([5, "abc", {"__t": "float", "v": 1.5}, {"a": 1}, [1, 2], {"__t": "bytearray", "v": [1]}] if valid else
                ["a\tb", "", "a\nb", {"__t": "float", "v": "nan"}, {"__t": "float", "v": "inf"}, [2 ** 40], [1, 2 ** 32],
                 {"__t": "bytearray", "v": []}])
        ops.append({"op": "assign", "li": ar.randrange(1000), "tag": ar.choice(["qd", "qe"]), "dtype": None,
                    "value": ar.choice(pool), "valid": valid, "connected": ar.random() < 0.6,
                    "reads": ar.randint(0, 2), "repair": 1})
    for _ in range(ar.randint(0, 2)):
        # header.add(): the multi-value aware setter, on a tag which has 0-3 values already
        dt = ar.choice(["i", "f", "Z", "A", "J"])
        valid = ar.random() < 0.4
        pool = [v for v in ASSIGN[dt][0 if valid else 1] if not isinstance(v, (list, dict)) or dt == "J"]
        ops.append({"op": "hdradd", "dtype": dt, "nprev": ar.randint(0, 3), "prev": ASSIGN[dt][0][0],
                    "explicit": ar.random() < 0.5, "value": ar.choice(pool), "valid": valid})
    for _ in range(ar.randint(0, 1)):
        # a tag is created, removed through its accessor and given two values of different types in a row: the
        # first decides the datatype, the second is invalid for it (at every level)
        first, second = ar.choice([(5, "abc"), ("abc", {"__t": "float", "v": 1.5}), ({"__t": "float", "v": 2.5}, "x y"),
                                   ([1, 2], "q"), (7, [1, 2])])
        ops.append({"op": "accessor_chain", "li": ar.randrange(1000), "tag": ar.choice(["qx", "qy"]), "first": first,
                    "second": second, "connected": ar.random() < 0.6})
    for _ in range(ar.randint(1, 5)):
        dt = ar.choice(sorted(ASSIGN))
        valid = ar.random() < 0.4
        pool = ASSIGN[dt][0 if valid else 1]
        ops.append({"op": "assign", "li": ar.randrange(1000), "tag": ar.choice(["qa", "qb", "qc"]), "dtype": dt,
                    "value": ar.choice(pool), "valid": valid, "connected": ar.random() < 0.6,
                    "reads": ar.randint(0, 2), "repair": ar.choice(ASSIGN[dt][0])})
    return {"cfg": {"version": doc["version"], "arm": arm}, "lines": lines, "ops": ops}


def norm_text(g, version):
    return gtext.canon_doc(ob.text_lines(g), version)


def run_history(scn, st):
    st.count("probe.arm_history")
    version = scn["cfg"]["version"]
    ws = [World(st) for _ in range(4)]
    hdr = sum(1 for op in scn["ops"] if op["op"] == "add" and op["line"].startswith("H\txx:"))
    if hdr >= 3:
        st.count("probe.repeated_header_tag")
    if scn["cfg"].get("custom_taglike"):
        st.count("probe.custom_taglike")
    from ..model import Doc
    m = Doc(version)
    for n, op in enumerate(scn["ops"]):
        outs = []
        if op["op"] not in ("new",):
            # the text model only tells where the history leaves the specified ground
            if op["op"] == "add" and (op["line"].startswith("H\txx:") or op["line"].startswith("XQ\t")):
                pass
            else:
                c05.model_apply(m, op, core.Stats())
            if m.unspecified:
                return
        for lvl, w in enumerate(ws):
            if op["op"] == "new":
                outs.append(w.apply(dict(op, vlevel=lvl)))
            elif w.gfa is not None:
                outs.append(w.apply(op))
        if op["op"] == "new" or len(outs) < 4:
            continue
        kinds = [o.ok for o in outs]
        st.count("oracle.same_outcome")
        st.state(digest(["history", op["op"], kinds]))
        if len(set(kinds)) != 1:
            raise core.Violation("levels-diverge-outcome",
                                 "step %d %r: outcome per level 0..3 = %r" %
                                 (n, op, [("ok" if o.ok else o.excname) for o in outs]),
                                 op=op["op"], pattern="".join("1" if k else "0" for k in kinds),
                                 exc=[o.excname for o in outs if not o.ok][0],
                                 frame=[o.frame for o in outs if not o.ok][0])
        if not kinds[0]:
            continue
        for lvl, w in enumerate(ws):
            for l in ob.listed_lines(w.gfa):
                if l.virtual or l.record_type == "#":
                    continue
                if l.vlevel != lvl:
                    raise core.Violation("line-level-differs",
                                         "Gfa(vlevel=%d): line %r was created with vlevel %r" %
                                         (lvl, ob.line_text(l), l.vlevel), rt=l.record_type, level=lvl)
        texts = []
        for w in ws:
            try:
                texts.append(norm_text(w.gfa, version))
            except Exception as e:
                texts.append(["<%s>" % type(e).__name__])
        st.count("oracle.same_text")
        st.state(digest(["history-text", texts[0]]))
        for lvl in (1, 2, 3):
            if texts[lvl] != texts[0]:
                a = [x for x in texts[0] if x not in texts[lvl]]
                b = [x for x in texts[lvl] if x not in texts[0]]
                raise core.Violation("levels-diverge-text",
                                     "after step %d %r: level 0 and level %d write different records: %r vs %r" %
                                     (n, op, lvl, a[:2], b[:2]), op=op["op"], level=lvl)


def run_corrupt(scn, st):
    st.count("probe.arm_corrupt")
    version = scn["cfg"]["version"]
    for op in scn["ops"]:
        st.step()
        st.count("op." + op["op"])
        st.count("fault.corrupt_" + op["kind"])
        acc = []
        excs = []
        for lvl in range(4):
            if op["op"] == "corrupt_line":
                rt = op["line"].split("\t")[0]
                o = core.call(gfapy.Line, op["line"], vlevel=lvl,
                              version=version if rt not in ("H", "#") and not op["line"].startswith("#") else None)
            else:
                w = World(st)
                o = w.construct(op["entry"], op["lines"], vlevel=lvl, version=None)
                if not o.ok and lvl >= 1 and o.excname == "NotFoundError":
                    # document-level validation (references) runs at levels >= 1 only, by documentation
                    pass
            acc.append(o.ok)
            excs.append(o.excname)
        st.count("oracle.monotonic")
        st.state(digest(["corrupt", op["kind"], acc]))
        st.count("probe.corrupt_accepted_somewhere" if any(acc) else "probe.corrupt_rejected_somewhere")
        for k in range(1, 4):
            if acc[k] and not all(acc[:k]):
                raise core.Violation("acceptance-not-monotonic",
                                     "%r accepted at level %d but per level 0..3: %r" %
                                     (op.get("line", op.get("lines")), k, [("ok" if a else e) for a, e in zip(acc, excs)]),
                                     op=op["op"], pattern="".join("1" if a else "0" for a in acc),
                                     exc=[e for a, e in zip(acc, excs) if not a][0])


def run_assign(scn, st):
    st.count("probe.arm_assign")
    version = scn["cfg"]["version"]
    reps = []
    for lvl in range(4):
        w = World(st)
        o = w.construct("list", scn["lines"], vlevel=lvl)
        if not o.ok:
            return
        reps.append(o.value)
    for lvl, g in enumerate(reps):
        # every line of a Gfa works at the Gfa's validation level
        st.count("oracle.line_level")
        for l in ob.listed_lines(g):
            if l.virtual or l.record_type == "#":
                continue      # placeholders and comments carry nothing a validation level could govern
            if l.vlevel != lvl:
                raise core.Violation("line-level-differs",
                                     "Gfa(vlevel=%d): line %r was created with vlevel %r" % (lvl, ob.line_text(l), l.vlevel),
                                     rt=l.record_type, level=lvl)
    for n, op in enumerate(scn["ops"]):
        st.step()
        if op["op"] == "posassign":
            posassign(reps, op, version, st)
            continue
        if op["op"] == "hdradd":
            hdradd(op, st)
            continue
        if op["op"] == "accessor_chain":
            accessor_chain(reps, op, version, st)
            continue
        st.count("op.assign")
        x = pyval(op["value"])
        tag, dt = op["tag"], op["dtype"]
        valid = op["valid"]
        st.count("probe.valid_assignment" if valid else "probe.invalid_assignment")
        for lvl, g in enumerate(reps):
            lines = [l for l in ob.listed_lines(g) if l.record_type != "#"]
            if not lines:
                return
            line = lines[op["li"] % len(lines)]
            if not op["connected"]:
                oo = core.call(gfapy.Line, ob.line_text(line), vlevel=lvl,
                               version=version if line.record_type not in "H" else None)
                if not oo.ok:
                    return
                line = oo.value
            core.call(line.delete, tag)
            if dt is not None:
                d = core.call(line.set_datatype, tag, dt)
                if not d.ok:
                    return
            a = core.call(line.set, tag, x)
            st.count("oracle.surfacing")
            st.state(digest(["assign", dt, repr(x), lvl, a.ok, line.record_type, op["connected"]]))
            if valid:
                if not a.ok:
                    raise core.Violation("valid-assignment-rejected",
                                         "level %d: set(%r, %r) under datatype %s raised %s: %s" %
                                         (lvl, tag, x, dt, a.excname, str(a.exc)[:200]), dtype=dt, level=lvl,
                                         exc=a.excname, frame=a.frame)
                for _ in range(op["reads"]):
                    core.call(line.get, tag)
                f = core.call(line.field_to_s, tag, True)
                v = core.call(line.validate_field, tag)
                s = core.call(str, line)
                if not (f.ok and v.ok and s.ok) or "# INVALID" in (s.value or ""):
                    raise core.Violation("valid-assignment-reported",
                                         "level %d: valid %r=%r (%s) reported invalid by %s" %
                                         (lvl, tag, x, dt, "field_to_s" if not f.ok else ("validate_field" if not v.ok else "str")),
                                         dtype=dt, level=lvl)
                core.call(line.delete, tag)
                continue
            # ---- invalid value
            if lvl == 3 and a.ok:
                raise core.Violation("invalid-not-reported-at-assignment",
                                     "level 3: set(%r, %r) under datatype %s was accepted" % (tag, x, dt),
                                     dtype=dt, level=3)
            if not a.ok:
                # reported at the assignment; the previous state must be intact (no value stored)
                continue
            # (level 0 parses a stored string leniently when it is read -- int('12\n') is 12 -- so a read may turn
            # an invalid text into a valid value; reads before the validation are made at levels >= 1 or for objects)
            for _ in range(op["reads"] if (lvl > 0 or not isinstance(x, str)) else 0):
                core.call(line.get, tag)
            if lvl == 2:
                f = core.call(line.field_to_s, tag, True)
                if f.ok:
                    raise core.Violation("invalid-not-reported-at-write",
                                         "level 2: %r=%r (%s): field_to_s wrote %r" % (tag, x, dt, f.value),
                                         dtype=dt, level=2)
                st.count("probe.surfaced_at_write")
                s = core.call(str, line)
                if s.ok and "# INVALID" not in s.value:
                    raise core.Violation("invalid-not-reported-at-write",
                                         "level 2: %r=%r (%s): str(line) wrote %r without raising or flagging" %
                                         (tag, x, dt, s.value), dtype=dt, level=2)
            v = core.call(line.validate_field, tag)
            if v.ok:
                raise core.Violation("invalid-not-reported-by-validate",
                                     "level %d: %r=%r (%s): validate_field passes" % (lvl, tag, x, dt), dtype=dt, level=lvl)
            v2 = core.call(line.validate)
            if v2.ok:
                raise core.Violation("invalid-not-reported-by-validate",
                                     "level %d: %r=%r (%s): line.validate() passes" % (lvl, tag, x, dt), dtype=dt, level=lvl)
            st.count("probe.surfaced_at_validate")
            # repair, then the replicas must agree again
            core.call(line.delete, tag)
            r = core.call(line.set, tag, pyval(op["repair"]))
            if r.ok:
                st.count("probe.repaired")
            core.call(line.delete, tag)
        texts = [norm_text(g, version) for g in reps]
        for lvl in (1, 2, 3):
            if texts[lvl] != texts[0]:
                raise core.Violation("levels-diverge-text", "after assignment %d the replicas differ (level %d)" % (n, lvl),
                                     level=lvl, op="assign")


def accessor_chain(reps, op, version, st):
    st.count("op.accessor_chain")
    tag = op["tag"]
    for lvl, g in enumerate(reps):
        lines = [l for l in ob.listed_lines(g) if l.record_type not in ("#",) and not l.virtual]
        if not lines:
            return
        line = lines[op["li"] % len(lines)]
        if not op["connected"]:
            oo = core.call(gfapy.Line, ob.line_text(line), vlevel=lvl, version=version if line.record_type not in "H" else None)
            if not oo.ok:
                return
            line = oo.value
        core.call(line.delete, tag)
        if not core.call(line.set, tag, 1).ok:
            return
        core.call(setattr, line, tag, None)
        a1 = core.call(setattr, line, tag, pyval(op["first"]))
        if not a1.ok:
            core.call(line.delete, tag)
            continue
        a2 = core.call(setattr, line, tag, pyval(op["second"]))
        st.count("oracle.surfacing")
        st.count("probe.accessor_chain")
        what = "level %d: %s.%s = None, then %r, then %r through the accessor" % (lvl, line.record_type, tag,
                                                                                 pyval(op["first"]), pyval(op["second"]))
        if lvl == 3 and a2.ok:
            raise core.Violation("invalid-not-reported-at-assignment", "%s: the second value was accepted" % what,
                                 dtype="chain", level=3)
        if a2.ok:
            v = core.call(line.validate_field, tag)
            if v.ok:
                raise core.Violation("invalid-not-reported-by-validate", "%s: validate_field passes (datatype now %r)" %
                                     (what, line.get_datatype(tag)), dtype="chain", level=lvl)
        core.call(line.delete, tag)


def hdradd(op, st):
    """header.add(tag, value[, datatype]) on a stand-alone header whose tag holds 0-3 values already"""
    st.count("op.hdradd")
    dt, x = op["dtype"], pyval(op["value"])
    for lvl in range(4):
        oo = core.call(gfapy.Line, "H", vlevel=lvl)
        if not oo.ok:
            return
        h = oo.value
        for _ in range(op["nprev"]):
            if not core.call(h.add, "hq", pyval(op["prev"]), dt).ok:
                return
        a = core.call(h.add, "hq", x, dt) if (op["explicit"] or op["nprev"] == 0) else core.call(h.add, "hq", x)
        st.count("oracle.surfacing")
        st.count("probe.header_add_multi" if op["nprev"] >= 2 else "probe.header_add")
        st.state(digest(["hdradd", dt, repr(x), lvl, a.ok, op["nprev"], op["explicit"]]))
        what = "level %d: header.add('hq', %r%s) after %d value(s) of datatype %s" % (
            lvl, x, ", %r" % dt if op["explicit"] else "", op["nprev"], dt)
        if op["valid"]:
            if not a.ok:
                raise core.Violation("valid-assignment-rejected", "%s raised %s: %s" % (what, a.excname, str(a.exc)[:200]),
                                     dtype=dt, level=lvl, exc=a.excname, frame=a.frame)
            v = core.call(h.validate)
            s_ = core.call(str, h)
            if not (v.ok and s_.ok) or "# INVALID" in (s_.value or ""):
                raise core.Violation("valid-assignment-reported", "%s: reported invalid afterwards" % what, dtype=dt, level=lvl)
            continue
        if lvl == 3 and a.ok:
            raise core.Violation("invalid-not-reported-at-assignment", "%s was accepted" % what, dtype=dt, level=3)
        if not a.ok:
            continue
        if lvl == 2:
            f = core.call(h.field_to_s, "hq", True)
            s_ = core.call(str, h)
            if f.ok and s_.ok and "# INVALID" not in s_.value:
                raise core.Violation("invalid-not-reported-at-write", "%s: written as %r" % (what, s_.value), dtype=dt, level=2)
        if lvl >= 1 or not isinstance(x, str):
            v = core.call(h.validate)
            if v.ok:
                raise core.Violation("invalid-not-reported-by-validate", "%s: header.validate() passes" % what, dtype=dt,
                                     level=lvl)


def posassign(reps, op, version, st):
    """valid / invalid assignment to a positional, non-reference field of a stand-alone line"""
    st.count("op.posassign")
    for lvl, g in enumerate(reps):
        cands = [l for l in ob.listed_lines(g) if not l.virtual and
                 ((l.record_type, version) in POSASSIGN or
                  (isinstance(l, gfapy.line.CustomRecord) and "field1" in l.positional_fieldnames))]
        if not cands:
            return
        src = cands[op["li"] % len(cands)]
        if isinstance(src, gfapy.line.CustomRecord):
            # the positional fields of a custom record: any text without tabs and line breaks
            st.count("probe.custom_record_field")
            table = {"field1": (["abc", "x:y z", "12"], ["not\tvalid", "a\nb"])}
        else:
            table = POSASSIGN[(src.record_type, version)]
        field = sorted(table)[op["fi"] % len(table)]
        pool = table[field][0 if op["valid"] else 1]
        x = pyval(pool[op["vi"] % len(pool)])
        oo = core.call(gfapy.Line, ob.line_text(src), vlevel=lvl, version=version)
        if not oo.ok:
            return
        line = oo.value
        if isinstance(line, gfapy.line.CustomRecord) and op["vi"] % 2:
            # through the accessor, for the second time (the fields of a custom record have no class-level accessor)
            core.call(setattr, line, field, "first")
            a = core.call(setattr, line, field, x)
            if a.ok and op["valid"]:
                r = core.call(line.get, field)
                if not r.ok or r.value != x:
                    raise core.Violation("assignment-lost", "level %d: %s.%s = %r (second assignment through the "
                                         "accessor): get() answers %r" % (lvl, src.record_type, field, x,
                                                                          r.value if r.ok else r.excname), dtype=field, level=lvl)
        else:
            a = core.call(line.set, field, x)
        st.count("oracle.surfacing")
        st.count("probe.valid_assignment" if op["valid"] else "probe.invalid_assignment")
        st.state(digest(["posassign", src.record_type, field, repr(x), lvl, a.ok]))
        if op["valid"]:
            if not a.ok:
                raise core.Violation("valid-assignment-rejected", "level %d: %s.%s = %r raised %s: %s" %
                                     (lvl, src.record_type, field, x, a.excname, str(a.exc)[:200]), dtype=field, level=lvl,
                                     exc=a.excname, frame=a.frame)
            f = core.call(line.field_to_s, field)
            v = core.call(line.validate_field, field)
            s = core.call(str, line)
            if not (f.ok and v.ok and s.ok) or "# INVALID" in (s.value or ""):
                raise core.Violation("valid-assignment-reported", "level %d: valid %s.%s = %r reported invalid" %
                                     (lvl, src.record_type, field, x), dtype=field, level=lvl)
            if field == "overlaps" and (x == "*" or gfapy.is_placeholder(x)):
                # 'all overlaps unspecified' fits every number of segments: the whole line stays valid
                v2 = core.call(line.validate)
                if not v2.ok:
                    raise core.Violation("valid-assignment-reported", "level %d: valid %s.%s = %r: line.validate() raises %s" %
                                         (lvl, src.record_type, field, x, v2.excname), dtype=field, level=lvl)
            continue
        if lvl == 3 and a.ok:
            raise core.Violation("invalid-not-reported-at-assignment", "level 3: %s.%s = %r was accepted" %
                                 (src.record_type, field, x), dtype=field, level=3)
        if not a.ok:
            continue
        for _ in range(op["reads"] if (lvl > 0 or not isinstance(x, str)) else 0):
            core.call(line.get, field)
        if lvl == 2:
            f = core.call(line.field_to_s, field)
            if f.ok:
                raise core.Violation("invalid-not-reported-at-write", "level 2: %s.%s = %r: field_to_s wrote %r" %
                                     (src.record_type, field, x, f.value), dtype=field, level=2)
            st.count("probe.surfaced_at_write")
            s = core.call(str, line)
            if s.ok and "# INVALID" not in s.value:
                raise core.Violation("invalid-not-reported-at-write",
                                     "level 2: %s.%s = %r: str(line) wrote %r without raising or flagging" %
                                     (src.record_type, field, x, s.value), dtype=field, level=2)
        v = core.call(line.validate_field, field)
        if v.ok:
            raise core.Violation("invalid-not-reported-by-validate", "level %d: %s.%s = %r: validate_field passes" %
                                 (lvl, src.record_type, field, x), dtype=field, level=lvl)
        v2 = core.call(line.validate)
        if v2.ok:
            raise core.Violation("invalid-not-reported-by-validate", "level %d: %s.%s = %r: line.validate() passes" %
                                 (lvl, src.record_type, field, x), dtype=field, level=lvl)
        st.count("probe.surfaced_at_validate")


def run(scn, st):
    arm = scn["cfg"].get("arm", "history")
    if arm == "history":
        return run_history(scn, st)
    if arm == "corrupt":
        return run_corrupt(scn, st)
    return run_assign(scn, st)


from .c02 import simplify as _s  # noqa: E402


def simplify(scn):
    if scn["cfg"].get("arm", "history") == "history":
        for c in _s(scn):
            yield c
