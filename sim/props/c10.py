"""C10 — read-only operations never modify anything.

Any state reached by the C05 workload (scheduled delivery + legal mutation
history, placeholders included); at scheduler-chosen points a burst of 1-8
calls from the read-only pool, with repetition and in random order. Oracle:
frame condition (observation digest of the Gfa and str of every touched value
identical before and after each call) and repeatability (same call twice gives
an equal canonical result).
"""
import gfapy
from .. import core, gtext
from ..world import World
from ..rng import digest
from .. import observe as ob
from . import c05

PROP = "C10"
RUNS = {"quick": 4000, "thorough": 60000}
WALL = {"quick": 280, "thorough": 3500}
RULE = ("one run = C05 workload + 2-10 bursts of read-only calls; frame condition per call; distinct = "
        "distinct (state digest, query) pairs")
PROBES = ["validate_on_text_fields", "burst_with_placeholder", "burst_after_complement", "query_raised", "asym_cigar_state",
          "lazy_field_vlevel0", "alignment_queries", "group_queries", "topology_queries"]

GFA_Q = ["str", "names", "lines", "validate", "line", "segment", "try_get_line", "select", "components",
         "segment_component", "counts", "linear_paths", "linear_path", "is_cut_link", "is_cut_segment",
         "headers", "collections", "fragments_for_external", "external_names", "info", "header_array_ops"]
LINE_Q = ["str", "repr", "to_list", "tagnames", "get_all", "get_datatype", "validate", "validate_fields", "clone",
          "eq", "diff", "diffscript", "field_to_s", "refstr", "all_references", "to_str_nocomment", "positional_fieldnames",
          "try_get", "is_connected", "version"]
SEG_Q = ["dovetails", "neighbours", "containers", "contained", "edges", "relations_to", "str_wo_seq",
         "dovetails_of_end", "gaps_of_end", "coverage", "connectivity", "length", "end_relations",
         "oriented_relations"]
LINK_Q = ["complement", "is_complement", "is_eql", "is_same", "is_compatible", "is_canonical", "other",
          "other_end", "ends", "oriented", "is_circular", "hash", "alignment_complement", "alignment_lengths",
          "types", "canonicize"]
EDGE2_Q = ["types", "other", "ends", "alignment_complement", "alignment_lengths", "from_to", "is_circular"]
GROUP_Q = ["captured_path", "captured_segments", "captured_edges", "induced_set", "induced_segments_set",
           "induced_edges_set", "links", "is_circular", "items"]


def gen(streams, tier, i):
    scn = c05.gen(streams, tier, i)
    qx = streams.get("queries_extra")
    if scn["cfg"]["version"] == "gfa1" and qx.random() < 0.5:
        # read-only queries must be pure for every CIGAR, S and N operations included
        segs = sorted(set(o["line"].split("\t")[1] for o in scn["ops"] if o["op"] == "add" and o["line"].startswith("S\t")))
        if segs:
            from .. import gen as G2
            for _ in range(qx.randint(1, 3)):
                a, b = qx.choice(segs), qx.choice(segs)
                scn["ops"].insert(qx.randint(1, len(scn["ops"])),
                                  {"op": "add", "line": "\t".join(["L", a, qx.choice("+-"), b, qx.choice("+-"),
                                                                    G2.gen_cigar(qx, "allsn", 9, 9)]), "as": "str"})
    ops = scn["ops"]
    if qx.random() < 0.3:
        # a header tag defined on several H lines
        t = qx.choice(["zr:i:%d", "zr:Z:v%d", "zr:J:[%d]"])
        for n_ in range(qx.randint(2, 3)):
            ops.insert(qx.randint(1, len(ops)), {"op": "add", "line": "H\t" + t % n_, "as": "str"})
    if qx.random() < 0.3:
        # a line made unwritable by a legal call (set_datatype is documented to possibly invalidate the content):
        # read-only calls on it may raise, they still change nothing
        ids = sorted(set(o["line"].split("\t")[1] for o in ops if o["op"] == "add" and o["line"].split("\t")[0] in ("S", "E", "O")
                         and o["line"].split("\t")[1] != "*"))
        if ids:
            nm = qx.choice(ids)
            pos = qx.randint(2, len(ops))
            ops.insert(pos, {"op": "set_tag", "id": nm, "tag": "zu", "value": "abc"})
            ops.insert(pos + 1, {"op": "set_datatype", "id": nm, "tag": "zu", "dtype": qx.choice(["i", "H", "J"])})
            ops.insert(pos + 2, {"op": "burst", "calls": [
                {"on": "named", "name": nm, "q": q_, "i": 0, "j": 1, "arg": "A"}
                for q_ in ("str_wo_seq", "str", "to_list", "validate", "clone", "str_wo_seq", "get_all")]})
    if scn["cfg"]["version"] == "gfa2" and qx.random() < 0.25:
        # searches for record types that have no line yet, then lines of those types arrive
        types = ["X", "Y", "Zz", "LEN", "Q"]
        k_ = qx.randrange(5)
        ops.append({"op": "burst", "calls": [{"on": "gfa", "q": "select", "i": k_, "j": 0, "arg": "A"}]})
        first = types[(k_ + 1 + qx.randrange(4)) % 5]
        ops.append({"op": "add", "line": "%s\tq1\tzz:i:1" % first, "as": "str"})
        ops.append({"op": "add", "line": "%s\tq2" % types[k_], "as": "str"})
    qr = streams.get("queries")
    nb = qr.randint(2, 6 if tier == "quick" else 10)
    for _ in range(nb):
        pos = qr.randint(1, len(ops))
        calls = []
        for _c in range(qr.randint(1, 8)):
            on = qr.choice(["gfa", "line", "line", "seg", "link", "edge2", "group"])
            pool = {"gfa": GFA_Q, "line": LINE_Q, "seg": SEG_Q, "link": LINK_Q, "edge2": EDGE2_Q, "group": GROUP_Q}[on]
            calls.append({"on": on, "q": qr.choice(pool), "i": qr.randrange(1000), "j": qr.randrange(1000),
                          "arg": qr.choice(["A", "B", "s1", "1", "x", "L", "R", "+", "-", "zz"])})
        ops.insert(pos, {"op": "burst", "calls": calls})
        if scn["cfg"]["version"] == "gfa1" and qr.random() < 0.4:
            links = [o["line"] for o in ops[:pos] if o["op"] == "add" and o["line"].startswith("L\t")]
            if links:
                f = qr.choice(links).split("\t")
                a, b = gtext.link_forms(f[1:6])
                ops.insert(pos, {"op": "add", "line": "\t".join(["L"] + list(b)), "as": "str", "complement": True})
    return scn


def canon(v, depth=0):
    """canonical rendering of a query result (order kept for lists, sets sorted)"""
    if depth > 6:
        return "<deep>"
    if isinstance(v, gfapy.Line):
        return "Line(%s)" % ob.line_text(v)
    if isinstance(v, gfapy.OrientedLine):
        return "OL(%s)" % str(v)
    if isinstance(v, (list, tuple)):
        return [canon(x, depth + 1) for x in v]
    if isinstance(v, (set, frozenset)):
        return sorted(str(canon(x, depth + 1)) for x in v)
    if isinstance(v, dict):
        return sorted((str(k), str(canon(x, depth + 1))) for k, x in v.items())
    if isinstance(v, (int, float, str, bool)) or v is None:
        return v
    return "%s(%s)" % (type(v).__name__, str(v))


def used_copy(c):
    """the text of a line handed out by a read-only call; the caller then edits the mutable tag values of *its* line"""
    text = str(c)
    for t in list(c.tagnames):
        v = core.call(c.get, t)
        if not v.ok:
            continue
        if isinstance(v.value, dict):
            v.value["zz9"] = [1]
        elif isinstance(v.value, list) and not isinstance(v.value, gfapy.FieldArray):
            core.call(v.value.append, 1)
    return text


NONCANON = ['zj:J:{"a":1,"b":[1,2]}', "zb:B:c,1,2", "zf:f:1e3", "zi:i:+5", "zh:H:0a", "zj:J:[1,2,  3]", "zb:B:f,1,2.50",
            "zf:f:+.5", "zb:B:S,01,2"]


def noncanon_validate(scn, st):
    """validate() and validate_field() of a line whose fields are still text (level 0) check the text and leave it"""
    v = scn["cfg"].get("version")
    texts = [o["line"] for o in scn["ops"] if o["op"] == "add" and isinstance(o.get("line"), str) and
             o["line"].split("\t")[0] in ("S", "L", "C", "E", "G", "F", "O", "U")][:6]
    for k_, t in enumerate(texts):
        if any(("\t" + x[:2] + ":") in t for x in NONCANON):
            continue
        extra = [NONCANON[(len(t) + k_ + j_) % len(NONCANON)] for j_ in (0, 4)]
        if extra[0][:2] == extra[1][:2]:
            extra = extra[:1]
        o = core.call(gfapy.Line, t + "\t" + "\t".join(extra), vlevel=0, version=v if v in ("gfa1", "gfa2") else None)
        if not o.ok:
            continue
        l = o.value
        s0 = core.call(str, l)
        if not s0.ok:
            continue
        st.count("probe.validate_on_text_fields")
        r = core.call(l.validate) if k_ % 2 else core.call(lambda: [l.validate_field(x) for x in list(l.tagnames)])
        s1 = core.call(str, l)
        if r.ok and (not s1.ok or s1.value != s0.value):
            raise core.Violation("query-modified-gfa", "validate%s of a level-0 line changed what it writes: %r -> %r" %
                                 ("()" if k_ % 2 else "_field()", s0.value, s1.value if s1.ok else s1.excname),
                                 on="line", q="validate", what="text-fields")


def pick(lst, i):
    return lst[i % len(lst)] if lst else None


def make_call(g, c):
    """-> (callable, [values whose str must not change]) or None"""
    on, q, i, j, arg = c["on"], c["q"], c["i"], c["j"], c["arg"]
    lines = ob.listed_lines(g)
    if on == "named":
        # a given line (by identifier): line queries, and the segment writer without sequence
        l = g.line(c["name"])
        if l is None:
            return None
        fields = list(l.positional_fieldnames) + list(l.tagnames)
        f = {
            "str": lambda: str(l), "to_list": l.to_list, "validate": l.validate, "clone": lambda: str(l.clone()),
            "get_all": lambda: [canon(l.get(x)) for x in fields],
            "str_wo_seq": (lambda: l.__str__(without_sequence=True)) if l.record_type == "S" else (lambda: str(l)),
        }.get(q)
        return (f, [l]) if f else None
    if on == "gfa":
        seg = pick(g.segments, i)
        lk = pick(g.dovetails, i)
        # (the criteria of a search are objects of the caller: they are the same afterwards)
        crit = [{"record_type": "S"}, {"name": arg}, {"record_type": "S", "name": arg}]
        f = {
            "str": lambda: str(g), "names": lambda: (g.names, g.segment_names, g.edge_names, g.path_names, g.set_names, g.gap_names),
            "lines": lambda: g.lines, "validate": g.validate, "line": lambda: g.line(arg),
            "segment": lambda: g.segment(arg), "try_get_line": lambda: g.try_get_line(arg),
            # (the criteria are objects of the caller: the same dictionaries are given again when the call is
            # repeated, and are theirs afterwards as before)
            "select": (lambda: g.select(crit[0]) + g.select(crit[1]) + g.select(crit[2]) +
                       g.select({"record_type": ("X", "Y", "Zz", "LEN", "Q")[i % 5]})),
            "components": lambda: [sorted(s.name for s in cc) for cc in g.connected_components()],
            "segment_component": (lambda: sorted(s.name for s in g.segment_connected_component(seg))) if seg else None,
            "counts": lambda: (g.n_dovetails, g.n_containments, g.n_internals, g.n_dead_ends),
            "linear_paths": g.linear_paths,
            "linear_path": (lambda: g.linear_path(seg.name)) if seg else None,
            "is_cut_link": (lambda: g.is_cut_link(lk)) if lk else None,
            "is_cut_segment": (lambda: g.is_cut_segment(seg)) if seg else None,
            "headers": lambda: ([str(h) for h in g.headers], g.header.tagnames, str(g.header)),
            "collections": lambda: (g.segments, g.edges, g.dovetails, g.containments, g.paths, g.sets, g.gaps,
                                    g.fragments, g.comments, g.custom_records),
            "fragments_for_external": lambda: g.fragments_for_external(arg),
            "external_names": lambda: g.external_names,
            "info": lambda: g.info(True) if hasattr(g, "info") else None,
            # operators on a multi-valued header tag as handed out by a read
            "header_array_ops": lambda: [(v + [list(v)[0]], v + v, list(v), v == v)
                                         for v in (g.header.get(t) for t in g.header.tagnames)
                                         if isinstance(v, gfapy.FieldArray) and len(list(v)) > 0],
        }.get(q)
        return (f, crit if q == "select" else []) if f else None
    if on == "line":
        l = pick(lines, i)
        if l is None:
            return None
        other = pick(lines, j)
        fields = list(l.positional_fieldnames) + list(l.tagnames)
        fld = pick(fields, j) if fields else None
        f = {
            "str": lambda: str(l), "repr": lambda: repr(l), "to_list": l.to_list, "tagnames": lambda: l.tagnames,
            "get_all": lambda: [canon(l.get(x)) for x in fields],
            "get_datatype": (lambda: l.get_datatype(fld)) if fld else None,
            "validate": l.validate,
            "validate_fields": lambda: [l.validate_field(x) for x in fields],
            "clone": lambda: str(l.clone()),
            "eq": lambda: (l == other, l != other),
            "diff": lambda: l.diff(other) if other.record_type == l.record_type else None,
            "diffscript": lambda: l.diffscript(other, "x"),
            "field_to_s": (lambda: l.field_to_s(fld, tag=fld in l.tagnames)) if fld else None,
            "refstr": l.refstr, "all_references": lambda: l.all_references if l.record_type != "P" else None,
            "to_str_nocomment": lambda: l.to_str(add_virtual_commentary=False),
            "positional_fieldnames": lambda: l.positional_fieldnames,
            "try_get": (lambda: l.try_get(fld)) if fld else None,
            "is_connected": lambda: (l.is_connected(), l.gfa is g, l.virtual),
            "version": lambda: (l.version, l.vlevel, l.record_type),
        }.get(q)
        return (f, [l, other]) if f else None
    if on == "seg":
        s = pick(g.segments, i)
        if s is None:
            return None
        o = pick(g.segments, j)
        f = {
            "dovetails": lambda: (s.dovetails, s.dovetails_L, s.dovetails_R, s.containments, s.internals, s.gaps,
                                  s.fragments, s.paths, s.sets, s.edges_to_contained, s.edges_to_containers),
            "neighbours": lambda: (s.neighbours, s.neighbours_L, s.neighbours_R),
            "containers": lambda: s.containers, "contained": lambda: s.contained, "edges": lambda: s.edges,
            "relations_to": lambda: (s.relations_to(o), s.relations_to(o.name, "dovetails")),
            "str_wo_seq": lambda: s.__str__(without_sequence=True),
            "dovetails_of_end": lambda: (s.dovetails_of_end(arg if arg in "LR" else "L"), s.neighbours_of_end("R")),
            "gaps_of_end": lambda: s.gaps_of_end("L"),
            "coverage": lambda: s.coverage(),
            "connectivity": lambda: s._connectivity(),
            "length": lambda: (s.length if hasattr(s, "length") else None, s.try_get_length() if hasattr(s, "try_get_length") else None),
            "end_relations": lambda: s.end_relations("L", gfapy.SegmentEnd(o, "R")),
            "oriented_relations": lambda: s.oriented_relations("+", gfapy.OrientedLine(o, "-")),
        }.get(q)
        return (f, [s, o]) if f else None
    if on == "link":
        links = [l for l in g.dovetails if l.record_type == "L"]
        l = pick(links, i)
        if l is None:
            return None
        o = pick(links, j)
        ov = l.overlap
        f = {
            "complement": lambda: used_copy(l.complement()),
            "is_complement": lambda: (l.is_complement(o), o.is_complement(l)),
            "is_eql": lambda: (l.is_eql(o), o.is_eql(l)),
            "is_same": lambda: (l.is_same(o), o.is_same(l)),
            "is_compatible": lambda: (l.is_compatible(o.oriented_from, o.oriented_to, o.overlap, True),
                                      l.is_compatible_direct(o.oriented_from, o.oriented_to, o.overlap),
                                      l.is_compatible_complement(o.oriented_from, o.oriented_to, o.overlap)),
            "is_canonical": l.is_canonical,
            "other": lambda: l.other(l.from_segment),
            "other_end": lambda: str(l.other_end(l.from_end)),
            "ends": lambda: (str(l.from_end), str(l.to_end), l.from_name, l.to_name),
            "oriented": lambda: (str(l.oriented_from), str(l.oriented_to)),
            "is_circular": lambda: (l.is_circular(), l.is_circular_same_end()),
            "hash": lambda: hash(l) == hash(l.complement()),
            "alignment_complement": lambda: str(ov.complement()),
            "alignment_lengths": lambda: (ov.length_on_reference(), ov.length_on_query()) if hasattr(ov, "length_on_query") else None,
            "types": lambda: (l.is_dovetail(), l.is_containment(), l.is_internal()),
            "canonicize": lambda: str(l.complement().complement()),
        }.get(q)
        return (f, [l, o, ov, o.overlap]) if f else None
    if on == "edge2":
        edges = [e for e in g.edges if e.record_type in ("E", "C")]
        e = pick(edges, i)
        if e is None:
            return None
        al = e.alignment if e.record_type == "E" else e.overlap
        f = {
            "types": lambda: (e.is_dovetail(), e.is_containment(), e.is_internal()),
            "other": lambda: e.other(e.from_segment),
            "ends": lambda: (str(e.from_end), str(e.to_end), str(e.other_end(e.from_end))),
            "alignment_complement": lambda: str(al.complement()),
            "alignment_lengths": lambda: (al.length_on_reference(), al.length_on_query()) if hasattr(al, "length_on_query") else None,
            "from_to": lambda: (e.from_segment, e.to_segment, e.from_orient, e.to_orient, str(e.overlap),
                                e.from_name, e.to_name),
            "is_circular": lambda: e.is_circular(),
        }.get(q)
        return (f, [e, al]) if f else None
    if on == "group":
        grp = g.paths + g.sets
        p = pick(grp, i)
        if p is None:
            return None
        f = {
            "captured_path": (lambda: p.captured_path) if p.record_type in ("P", "O") else None,
            "captured_segments": (lambda: p.captured_segments) if p.record_type in ("P", "O") else None,
            "captured_edges": (lambda: p.captured_edges) if p.record_type in ("P", "O") else None,
            "induced_set": (lambda: p.induced_set) if p.record_type == "U" else None,
            "induced_segments_set": (lambda: p.induced_segments_set) if p.record_type == "U" else None,
            "induced_edges_set": (lambda: p.induced_edges_set) if p.record_type == "U" else None,
            "links": (lambda: p.links) if p.record_type == "P" else None,
            "is_circular": (lambda: p.is_circular()) if p.record_type == "P" else None,
            "items": (lambda: p.items) if p.record_type in ("O", "U") else (lambda: (p.segment_names, p.overlaps)),
        }.get(q)
        return (f, [p]) if f else None
    return None


def sstr(v):
    try:
        return str(v)
    except Exception as e:
        return "<%s>" % type(e).__name__


def burst(w, op, st, n):
    g = w.gfa
    pre = ob.observe(g)
    pre_d = digest(pre)
    if any(e["virtual"] for e in pre["graph"].values()):
        st.count("probe.burst_with_placeholder")
    if any(any(c in ln.split("\t")[5] for c in "ID") for ln in pre["lines"] if ln.startswith("L\t") and len(ln.split("\t")) > 5):
        st.count("probe.asym_cigar_state")
    if g.vlevel == 0:
        st.count("probe.lazy_field_vlevel0")
    for c in op["calls"]:
        mc = make_call(g, c)
        if mc is None:
            continue
        f, touched = mc
        if f is None:
            continue
        st.count("op.query")
        if c["on"] in ("link", "edge2") and c["q"].startswith("alignment"):
            st.count("probe.alignment_queries")
        if c["on"] == "group":
            st.count("probe.group_queries")
        if c["q"] in ("components", "segment_component", "counts", "linear_paths", "is_cut_link"):
            st.count("probe.topology_queries")
        t_pre = [sstr(x) for x in touched]
        o1 = core.call(f)
        if not o1.ok:
            st.count("probe.query_raised")
        post = ob.observe(g)
        st.count("oracle.frame_condition")
        st.state(digest([pre_d, c["on"], c["q"]]))
        if post != pre:
            from .c08 import diff_obs, diff_kind
            raise core.Violation("query-modified-gfa",
                                 "step %d: read-only %s.%s changed the Gfa: %s" % (n, c["on"], c["q"], diff_obs(pre, post)),
                                 on=c["on"], q=c["q"], what=diff_kind(pre, post))
        t_post = [sstr(x) for x in touched]
        if t_pre != t_post:
            d = [(a, b) for a, b in zip(t_pre, t_post) if a != b][:2]
            raise core.Violation("query-modified-argument",
                                 "step %d: read-only %s.%s changed a value it touched: %r" % (n, c["on"], c["q"], d),
                                 on=c["on"], q=c["q"])
        mc2 = make_call(g, c)
        if mc2 is None or mc2[0] is None:
            continue
        o2 = core.call(mc2[0])
        st.count("oracle.repeatable")
        r1 = canon(o1.value) if o1.ok else "raised " + o1.excname
        r2 = canon(o2.value) if o2.ok else "raised " + o2.excname
        if r1 != r2:
            raise core.Violation("not-repeatable",
                                 "step %d: %s.%s answered %r, then %r" % (n, c["on"], c["q"], str(r1)[:200], str(r2)[:200]),
                                 on=c["on"], q=c["q"])
        post2 = ob.observe(g)
        if post2 != pre:
            from .c08 import diff_obs, diff_kind
            raise core.Violation("query-modified-gfa",
                                 "step %d: repeated read-only %s.%s changed the Gfa: %s" %
                                 (n, c["on"], c["q"], diff_obs(pre, post2)), on=c["on"], q=c["q"],
                                 what=diff_kind(pre, post2))


def run(scn, st):
    w = World(st)
    # a twin executes the same mutations and none of the read-only calls: 'nor any later answer' -- at the end
    # the two write the same document, line by line in the same order
    twin = World(core.Stats())
    complement_seen = False
    for n, op in enumerate(scn["ops"]):
        if op["op"] == "new":
            w.apply(op)
            twin.apply(op)
            continue
        if w.gfa is None:
            continue
        if op["op"] != "burst" and twin.gfa is not None:
            twin.apply(op)
        if op["op"] == "burst":
            st.count("op.burst")
            st.step()
            if complement_seen:
                st.count("probe.burst_after_complement")
            burst(w, op, st, n)
            continue
        out = w.apply(op)
        st.count("outcome." + out.kind)
        if op.get("complement"):
            complement_seen = True
    noncanon_validate(scn, st)
    if w.gfa is not None and twin.gfa is not None:
        # the twin, which nobody has read so far, and the Gfa give the same later answers: the in-place edits of references that a connected line refuses
        # are refused whether the lines were read before or not
        def edit_attempts(gg):
            out = []
            for l in ob.listed_lines(gg):
                if l.virtual:
                    continue
                for f in getattr(l.__class__, "REFERENCE_FIELDS", []):
                    o = core.call(l.get, f)
                    if not o.ok:
                        continue
                    vals = o.value if isinstance(o.value, list) else [o.value]
                    for k_, x in enumerate(vals[:4]):
                        if isinstance(x, gfapy.OrientedLine):
                            def flip(x=x):
                                x.orient = "-" if x.orient == "+" else "+"
                            r = core.call(flip)
                            out.append((l.record_type, f, k_, "accepted" if r.ok else r.excname))
            return out
        eb = edit_attempts(twin.gfa)
        ea = edit_attempts(w.gfa)
        st.count("oracle.twin_later_answers")
        if ea != eb:
            d = [(x, y) for x, y in zip(ea, eb) if x != y][:2]
            raise core.Violation("queries-changed-later-answer",
                                 "in-place edits of the references of connected lines: with the read-only calls before %r, "
                                 "without them %r" % ([x for x, _ in d], [y for _, y in d]), what="edit-protection")
        st.count("oracle.twin_without_queries")
        v = w.gfa.version
        a = [gtext.canon_lines(x, v) for x in ob.text_lines(w.gfa)] if v in ("gfa1", "gfa2") else ob.text_lines(w.gfa)
        b = [gtext.canon_lines(x, v) for x in ob.text_lines(twin.gfa)] if v in ("gfa1", "gfa2") else ob.text_lines(twin.gfa)
        if a != b or w.gfa.version != twin.gfa.version:
            i = next((k for k in range(min(len(a), len(b))) if a[k] != b[k]), min(len(a), len(b)))
            raise core.Violation("queries-changed-later-output",
                                 "the same mutations without the read-only calls write a different document: line %d is %r "
                                 "with the calls, %r without" % (i, a[i] if i < len(a) else None, b[i] if i < len(b) else None),
                                 what="order" if sorted(map(str, a)) == sorted(map(str, b)) else "content")




from .c02 import simplify as _s  # noqa: E402


def simplify(scn):
    for c in _s(scn):
        yield c
    # drop calls inside bursts
    for i, op in enumerate(scn["ops"]):
        if op["op"] == "burst" and len(op["calls"]) > 1:
            for j in range(len(op["calls"])):
                c = dict(scn)
                c["ops"] = list(scn["ops"])
                c["ops"][i] = dict(op, calls=op["calls"][:j] + op["calls"][j + 1:])
                yield c
