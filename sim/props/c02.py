"""C02 — reference graph closed and symmetric under every mutation history.

Workload: a generated document delivered in a scheduler-chosen order (forward
references, optional record loss so that placeholders stay), then a random
history of add / rm / disconnect / rename. Oracle: inv.closed_symmetric after
EVERY step, on the implementation alone (no model => no model-induced alarm).
"""
from .. import gen as G, hist, inv, core
from ..world import World
from ..rng import digest
from .. import observe as ob

PROP = "C02"
RUNS = {"quick": 6000, "thorough": 100000}
WALL = {"quick": 280, "thorough": 3500}
RULE = ("one run = one generated GFA1/GFA2 document, a delivery schedule, and a history of "
        "add/rm/disconnect/rename ops; closed_symmetric checked after every op; distinct = distinct "
        "observation digests reached after a mutating op")
PROBES = ["fanout2_removal", "placeholder_present", "rename_referenced", "self_link", "removed_handles",
          "virtual_link", "unknown_placeholder", "readd_removed", "nested_group"]
STUBS = ["record transport (delivery order, loss) — the harness is the only caller of add_line"]
ASSUMPTIONS = ["reference fields / back-reference collections per record type are those listed in the "
               "property's observe_at (doc/tutorial/references.rst)",
               "H lines from gfa.headers are detached views by design; ownership asserted for gfa.header"]


def gen(streams, tier, i):
    cfg_r = streams.get("config")
    k = G.swarm_knobs(cfg_r)
    # bias towards fan-out >= 2 on one segment end
    if cfg_r.random() < 0.5:
        k["max_seg"] = cfg_r.choice([2, 3])
        k["max_link"] = 8
        k["max_edge"] = 8
    doc = G.gen_doc(streams.get("document"), k)
    sr = streams.get("schedule")
    lines, mode = hist.schedule(sr, doc["lines"])
    fr = streams.get("faults")
    drop = []
    if fr.random() < 0.25 and len(lines) > 2:
        # loss fault: some records never arrive (placeholders survive)
        for _ in range(fr.randint(1, 2)):
            drop.append(fr.randrange(len(lines)))
    vlevel = cfg_r.choice([0, 1, 1, 2, 3])
    version = cfg_r.choice([None, None, doc["version"]])
    ops = [{"op": "new", "vlevel": vlevel, "version": version}]
    for j, ln in enumerate(lines):
        if j in drop:
            continue
        ops.append({"op": "add", "line": ln, "as": "obj" if sr.random() < 0.15 else "str"})
    ops.append({"op": "flush"})
    sh = hist.Shadow(doc["version"], [l for j, l in enumerate(lines) if j not in drop])
    p_bad = cfg_r.choice([0.0, 0.0, 0.15, 0.3])
    nmut = sr.randint(1, 12 if tier == "quick" else 25)
    hr = streams.get("history")
    if p_bad == 0.0:
        ops += hist.mutation_ops(hr, sh, nmut, k, p_bad=0.0)
    else:
        # histories in which some calls fail (caught by the client): the graph must stay closed all the same
        from .c07 import corrupt
        for _ in range(nmut):
            if hr.random() < p_bad:
                ops += hist.bad_op(fr, sh, k, corrupt)[1]
            else:
                ops += hist.mutation_ops(hr, sh, 1, k, p_bad=p_bad)
    if doc["version"] == "gfa2" and hr.random() < 0.3:
        # the items of connected groups edited through their methods: items given as text, as the object another
        # group holds, as a line of another Gfa; then the other group, or a line, is removed
        grp = sh.ids(["O", "U"])
        ids = sh.ids(["S", "E", "G", "O", "U"])
        for _ in range(hr.randint(1, 3) if grp else 0):
            ops.append({"op": "grp_edit", "id": hr.choice(grp), "how": hr.choice(["add", "append", "prepend", "prepend", "rm", "rm_first", "rm_last"]),
                        "item": hr.choice(ids) + hr.choice(["+", "-"]),
                        "raw": hr.choice([None, "from_group", "from_group", "foreign_line", "str"])})
            if ops[-1]["raw"] == "from_group" and hr.random() < 0.7:
                ops.append({"op": "rm_other_group", "id": ops[-1]["id"]})
            elif ops[-1]["how"] in ("append", "prepend") and hr.random() < 0.5:
                # the item just added is edited in place (refused, like for the items read from the text)
                ops.append({"op": "set_field", "id": ops[-1]["id"], "field": "items", "inplace": "line",
                            "idx": -1 if ops[-1]["how"] == "append" else 0, "value": hr.choice(ids + ["zz9"])})
            if hr.random() < 0.5:
                ops.append({"op": "rm", "id": hr.choice(ids), "how": hr.choice(["rm", "disconnect"])})
        if hr.random() < 0.5:
            ops.append({"op": "standalone_takes_item", "i": hr.randrange(8), "j": hr.randrange(8),
                        "how": hr.choice(["append", "prepend"])})
        if hr.random() < 0.3:
            ops.append({"op": "add_set_of_foreign_lines", "id": "zu%d" % hr.randrange(9)})
    return {"cfg": {"version": doc["version"], "order": mode, "dropped": len(drop), "p_bad": p_bad,
                    "vlevel": vlevel}, "ops": ops}


def probes(w, st, op):
    g = w.gfa
    segs = g.segments
    for s in segs:
        if s.virtual:
            st.count("probe.placeholder_present")
            break
    for l in g.edges:
        if l.virtual:
            st.count("probe.virtual_link")
            break
    if g._records.get("\n"):
        st.count("probe.unknown_placeholder")


def run(scn, st):
    w = World(st)
    seen_removed_texts = set()
    for n, op in enumerate(scn["ops"]):
        if w.gfa is None and op["op"] != "new":
            continue
        if op["op"] not in ("new", "add", "flush", "rm", "rename"):
            w.apply(op)          # tag edits etc. of the bad-call catalogue: executed, then checked like any step
            if w.gfa is not None:
                try:
                    inv.closed_symmetric(w.gfa, w.removed)
                except inv.Bad as b:
                    raise core.Violation(b.clause, "after step %d %s: %s" % (n, _opstr(op), b.detail),
                                         op=op["op"], rts=list(b.rts), after="other")
            continue
        pre_probe = None
        if op["op"] == "rm" and w.gfa is not None:
            t = w._target(op) if ("id" in op or "text" in op) else None
            if t is not None and t.record_type == "S":
                for c in ("dovetails_L", "dovetails_R", "edges_to_contained", "edges_to_containers",
                          "gaps_L", "gaps_R", "fragments", "paths", "sets", "internals"):
                    if len(getattr(t, c)) >= 2:
                        st.count("probe.fanout2_removal")
                        break
                for l in t.dovetails:
                    same = core.call(lambda: l.from_segment is l.to_segment)     # (a probe only)
                    if same.ok and same.value:
                        st.count("probe.self_link")
                        break
        if op["op"] == "rename" and w.gfa is not None:
            t = w._target(op)
            if t is not None and t.record_type != "P":
                try:
                    if t.all_references:
                        st.count("probe.rename_referenced")
                except Exception:
                    pass
        if op["op"] == "add" and op["line"] in seen_removed_texts:
            st.count("probe.readd_removed")
        out = w.apply(op)
        if op["op"] == "rm":
            if "text" in op:
                seen_removed_texts.add(op["text"])
        st.count("outcome." + out.kind)
        if out.kind == "foreign":
            st.count("probe.foreign_exception")
        if w.gfa is None:
            continue
        if w.removed:
            st.count("probe.removed_handles")
        try:
            inv.closed_symmetric(w.gfa, w.removed)
            st.count("oracle.closed_symmetric")
        except inv.Bad as b:
            raise core.Violation(b.clause, "after step %d %s: %s" % (n, _opstr(op), b.detail),
                                 op=op["op"], rts=list(b.rts), after=out.kind)
        if op["op"] != "new":
            probes(w, st, op)
            if out.ok:
                st.state(digest(ob.observe(w.gfa)))
    if w.gfa is not None:
        for l in w.gfa.sets + w.gfa.paths:
            if l.record_type in ("O", "U"):
                for _f, _i, t, _o in ob.ref_items(l):
                    if getattr(t, "record_type", None) in ("O", "U"):
                        st.count("probe.nested_group")
                        return


def _opstr(op):
    return " ".join("%s=%r" % (k, v) for k, v in op.items())


def simplify(scn):
    """Per-op simplifications: drop tags from added lines."""
    for i, op in enumerate(scn["ops"]):
        if op["op"] == "add":
            f = op["line"].split("\t")
            from ..gtext import TAG_RE
            g = [x for x in f if not (TAG_RE.match(x) and not x.startswith("ID:") and not x.startswith("LN:"))]
            if len(g) < len(f):
                c = dict(scn)
                c["ops"] = list(scn["ops"])
                c["ops"][i] = dict(op, line="\t".join(g))
                yield c
        if op["op"] == "add" and op.get("as") == "obj":
            c = dict(scn)
            c["ops"] = list(scn["ops"])
            c["ops"][i] = dict(op)
            c["ops"][i]["as"] = "str"
            yield c
