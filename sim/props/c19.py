"""C19 — a clone is an equal, detached and fully independent line.

Two clients: one holds the original (possibly connected to a Gfa), one holds
the clone; the scheduler interleaves their edits (field/tag assignment,
in-place edits of every mutable value a getter hands out). Oracle at clone
time: detached, same written form, equal. After every edit by one client the
other client's line (and, for clone edits, the Gfa) is unchanged.
"""
import gfapy
from .. import gen as G, core, gtext
from ..world import World
from ..rng import digest
from .. import observe as ob

PROP = "C19"
RUNS = {"quick": 5000, "thorough": 120000}
WALL = {"quick": 280, "thorough": 3500}
RULE = ("one run = one generated document, 1-3 (line, clone) pairs of any record type, up to 10 "
        "interleaved edits per pair; distinct = distinct (record type, edit kind, side) tuples x line digest")
PROBES = ["connected_original", "standalone_original", "edit_clone", "edit_original", "inplace_list",
          "inplace_cigar", "inplace_oriented", "inplace_json", "inplace_numarray", "header_clone",
          "edit_applied", "inplace_lastpos", "header_clone_merged",
          "clone_of_complement", "clone_of_line_with_line_objects", "inplace_fieldarray_element",
          "group_takes_item_object"]
EDITS = ["set_tag", "del_tag", "set_pos", "list_append", "list_pop", "cigar_op", "oriented", "json_inplace",
         "numarray_append", "fieldarray_append", "set_datatype", "trace_inplace", "list_item_inplace", "lastpos_inplace",
         "fieldarray_elem_inplace", "group_take_item", "group_take_item"]


def gen(streams, tier, i):
    cfg = streams.get("config")
    k = G.swarm_knobs(cfg)
    k["p_tags"] = 0.9
    k["max_tags"] = 4
    k["tagtypes"] = cfg.choice(["AifZJHB", "JB", "JBZ"])
    k["overlap"] = cfg.choice(["asym", "mixed", "match"])
    doc = G.gen_doc(streams.get("document"), k)
    er = streams.get("history")
    ops = []
    for _ in range(er.randint(1, 3)):
        ops.append({"op": "clone", "i": er.randrange(1000), "connected": er.random() < 0.7,
                    "header": er.random() < 0.12, "refs": er.choice(["text", "text", "objects", "complement"])})
        if ops[-1]["header"] and er.random() < 0.6:
            # the clone of the header, given tags of its own, is handed back to add_line (merged into the header):
            # it stays the caller's object, later in-place edits of it do not reach the Gfa
            ops.append({"op": "merge_clone"})
        for _e in range(er.randint(1, 10)):
            ops.append({"op": "edit", "side": er.choice(["clone", "orig"]), "e": er.choice(EDITS),
                        "j": er.randrange(1000), "v": er.choice([1, 7, "zz", "+", "-", "A", 2.5])})
    drop = None
    if cfg.random() < 0.2:
        # the definition of one segment never arrives: the lines that mention it refer to a placeholder, which can
        # be cloned like any line
        segidx = [j for j, ln in enumerate(doc["lines"]) if ln.startswith("S\t")]
        if segidx:
            drop = cfg.choice(segidx)
    return {"cfg": {"version": doc["version"], "vlevel": cfg.choice([0, 1, 1, 2, 3]), "drop": drop}, "lines": doc["lines"],
            "ops": ops}


def gfa_lines_held(line):
    """reference fields of a detached line that hold Line objects instead of identifiers"""
    out = []
    for f in line.positional_fieldnames:
        o = core.call(line.get, f)
        if not o.ok:
            continue
        vals = o.value if isinstance(o.value, list) else [o.value]
        for x in vals:
            ln = x.line if isinstance(x, gfapy.OrientedLine) else x
            if isinstance(ln, gfapy.Line):
                out.append(f)
                break
    return out


def give_line_objects(line, g, how, st):
    """a stand-alone line whose reference fields hold the Gfa's own Line objects (what link.complement()
    returns for a connected link, or what a caller gets by assigning lines to the fields of a new line)"""
    if how == "complement" and line.record_type == "L":
        src = None
        for l in g.dovetails:
            if l.record_type == "L" and not l.virtual and ob.line_text(l) == ob.line_text(line):
                src = l
                break
        if src is None:
            return line
        o = core.call(src.complement)
        if o.ok:
            st.count("probe.clone_of_complement")
            return o.value
        return line
    if how != "objects":
        return line
    done = False
    for f in getattr(line.__class__, "REFERENCE_FIELDS", []):
        o = core.call(line.get, f)
        if not o.ok or isinstance(o.value, list):
            continue
        v = o.value
        name = v.name if isinstance(v, gfapy.OrientedLine) else v
        if not isinstance(name, str):
            continue
        tgt = core.call(g.segment, name)
        if not tgt.ok or tgt.value is None:
            continue
        new = gfapy.OrientedLine(tgt.value, v.orient) if isinstance(v, gfapy.OrientedLine) else tgt.value
        if core.call(line.set, f, new).ok:
            done = True
    if done:
        st.count("probe.clone_of_line_with_line_objects")
    return line


def read_all(line):
    for f in list(line.positional_fieldnames) + list(line.tagnames):
        core.call(line.get, f)


def sstr(l):
    try:
        return str(l)
    except Exception as e:
        return "<str raised %s>" % type(e).__name__


def mutable_values(line):
    """[(fieldname, value)] for every mutable value a getter hands out"""
    out = []
    for f in list(line.positional_fieldnames) + list(line.tagnames):
        o = core.call(line.get, f)
        if o.ok and isinstance(o.value, (list, dict, gfapy.OrientedLine, gfapy.FieldArray, gfapy.LastPos)):
            out.append((f, o.value))
    return out


def apply_edit(line, op, st, connected, other=None):
    """Perform one edit on 'line'. Returns a description or None if not applicable."""
    e, j, v = op["e"], op["j"], op["v"]
    if e == "group_take_item":
        # an ordered group (not connected) is given the item object the other line holds, then edits its new item
        if line.record_type != "O" or line.is_connected() or other is None or other.is_connected():
            return None
        if isinstance(other._data.get("items"), str):
            # (still text, e.g. assigned at level 0: reading it here would decode and store it, and the harness
            # itself would have changed what the other line writes)
            return None
        src = core.call(other.get, "items")
        if not src.ok or not isinstance(src.value, list) or not src.value:
            return None      # (an earlier edit may have put something else into the field)
        it = src.value[j % len(src.value)]
        if not isinstance(it, gfapy.OrientedLine):
            return None
        st.count("probe.group_takes_item_object")

        def g_():
            (line.append_item if j % 2 else line.prepend_item)(it)
            mine = line.items[-1] if j % 2 else line.items[0]
            mine.orient = "-" if mine.orient == "+" else "+"
        return core.call(g_), "append_item(<item object of the other line>), then flip of the new item"
    mv = mutable_values(line)
    tags = list(line.tagnames)
    if e == "set_tag":
        if line.record_type == "#":
            return None
        name = (tags + ["qa", "qb"])[j % (len(tags) + 2)]
        return core.call(line.set, name, v), "set %s" % name
    if e == "del_tag" and tags:
        return core.call(line.delete, tags[j % len(tags)]), "delete"
    if e == "set_pos":
        if line.is_connected():
            return None      # positional edits of connected lines are restricted by design (C08's catalogue)
        pf = list(line.positional_fieldnames)
        if not pf:
            return None
        f = pf[j % len(pf)]
        return core.call(line.set, f, v), "set positional %s" % f
    if e == "set_datatype" and tags:
        return core.call(line.set_datatype, tags[j % len(tags)], "Z"), "set_datatype"
    lists = [(f, x) for f, x in mv if isinstance(x, list) and not isinstance(x, (gfapy.NumericArray,))]
    if e == "list_append" and lists:
        f, x = lists[j % len(lists)]
        st.count("probe.inplace_list")
        if isinstance(x, gfapy.CIGAR):
            return core.call(x.append, gfapy.CIGAR.Operation(3, "M")), "append to %s" % f
        if x and isinstance(x[0], gfapy.OrientedLine):
            return core.call(x.append, gfapy.OrientedLine("zzz", "+")), "append to %s" % f
        return core.call(x.append, x[0] if x else 1), "append to %s" % f
    if e == "list_pop" and lists:
        f, x = lists[j % len(lists)]
        st.count("probe.inplace_list")
        if x:
            return core.call(x.pop), "pop from %s" % f
        return None
    if e == "list_item_inplace" and lists:
        f, x = lists[j % len(lists)]
        st.count("probe.inplace_list")
        if x and isinstance(x[0], gfapy.OrientedLine):
            def g():
                x[j % len(x)].orient = "-" if x[j % len(x)].orient == "+" else "+"
            st.count("probe.inplace_oriented")
            return core.call(g), "flip orient inside %s" % f
        if x and isinstance(x[0], gfapy.CIGAR):
            def g():
                c = x[j % len(x)]
                if len(c):
                    c[0].length = 77
            st.count("probe.inplace_cigar")
            return core.call(g), "edit cigar inside %s" % f
        if x and isinstance(x[0], list):
            return core.call(x[0].append, 5), "append to nested list in %s" % f
        return None
    cigars = [(f, x) for f, x in mv if isinstance(x, gfapy.CIGAR) and len(x)]
    if e == "cigar_op" and cigars:
        f, x = cigars[j % len(cigars)]
        st.count("probe.inplace_cigar")

        def g():
            opn = x[j % len(x)]
            if j % 2:
                opn.length = opn.length + 11
            else:
                opn.code = "I" if opn.code != "I" else "D"
        return core.call(g), "edit CIGAR operation of %s" % f
    ols = [(f, x) for f, x in mv if isinstance(x, gfapy.OrientedLine)]
    if e == "oriented" and ols:
        f, x = ols[j % len(ols)]
        st.count("probe.inplace_oriented")

        def g():
            x.orient = "-" if x.orient == "+" else "+"
        return core.call(g), "flip orient of %s" % f
    js = [(f, x) for f, x in mv if (isinstance(x, dict) or (isinstance(x, list) and not isinstance(x, (gfapy.CIGAR, gfapy.NumericArray)) and
                                                          line.get_datatype(f) == "J"))]
    if e == "json_inplace" and js:
        f, x = js[j % len(js)]
        st.count("probe.inplace_json")

        def g():
            if isinstance(x, dict):
                x["injected"] = [1, 2]
                for kk in list(x):
                    if isinstance(x[kk], (list, dict)) and kk != "injected":
                        (x[kk].append(9) if isinstance(x[kk], list) else x[kk].update({"deep": 1}))
            else:
                x.append({"injected": 1})
                if x and isinstance(x[0], (list, dict)):
                    (x[0].append(9) if isinstance(x[0], list) else x[0].update({"deep": 1}))
        return core.call(g), "in-place JSON edit of %s" % f
    nas = [(f, x) for f, x in mv if isinstance(x, gfapy.NumericArray)]
    if e == "numarray_append" and nas:
        f, x = nas[j % len(nas)]
        st.count("probe.inplace_numarray")
        return core.call(x.append, x[0] if x else 1), "append to numeric array %s" % f
    fas = [(f, x) for f, x in mv if isinstance(x, gfapy.FieldArray)]
    if e == "fieldarray_append" and fas:
        f, x = fas[j % len(fas)]
        return core.call(x.append, x._data[0] if len(x._data) else 1), "append to field array %s" % f
    if e == "fieldarray_elem_inplace" and fas:
        f, x = fas[j % len(fas)]
        elems = [y for y in x._data if isinstance(y, (list, dict))]
        if elems:
            y = elems[j % len(elems)]
            st.count("probe.inplace_fieldarray_element")

            def h2():
                if isinstance(y, dict):
                    y["injected"] = 1
                    for kk in list(y):
                        if isinstance(y[kk], list):
                            y[kk].append(9)
                else:
                    y.append(7)
                    if y and isinstance(y[0], list):
                        y[0].append(8)
            return core.call(h2), "in-place edit of a value of the repeated tag %s" % f
    if e == "lastpos_inplace":
        lp = [(f, x) for f, x in mv if isinstance(x, gfapy.LastPos)]
        if lp:
            f, x = lp[j % len(lp)]
            st.count("probe.inplace_lastpos")

            def h():
                x.value = x.value + 1 + j % 3
            return core.call(h), "in-place change of the last position %s" % f
    if e == "trace_inplace":
        tr = [(f, x) for f, x in mv if isinstance(x, gfapy.Trace)]
        if tr:
            f, x = tr[j % len(tr)]
            return core.call(x.append, 42), "append to trace %s" % f
    return None


def run(scn, st):
    cfg = scn["cfg"]
    w = World(st)
    if cfg.get("drop") is not None:
        def build():
            g_ = gfapy.Gfa(vlevel=cfg["vlevel"], version=cfg["version"])
            for j, ln in enumerate(scn["lines"]):
                if j != cfg["drop"]:
                    g_.add_line(ln)
            return g_
        o = core.call(build)
    else:
        o = w.construct("list", scn["lines"], vlevel=cfg["vlevel"])
    if not o.ok:
        return
    g = o.value
    orig = clone = None
    connected = False
    dirty = set()
    keep = []
    for n, op in enumerate(scn["ops"]):
        st.step()
        st.count("op." + op["op"])
        if op["op"] == "clone":
            lines = [l for l in ob.listed_lines(g)]
            if op.get("header"):
                # give the header a repeated tag so that it holds a FieldArray
                core.call(g.add_line, "H\tzq:i:1")
                core.call(g.add_line, "H\tzq:i:2")
                # ... and repeated tags whose values are themselves mutable (JSON, numeric arrays)
                core.call(g.add_line, "H\tzj:J:[1, [2]]\tzb:B:c,1,2")
                core.call(g.add_line, "H\tzj:J:{\"a\": [3]}\tzb:B:c,5")
                orig = g.header
                st.count("probe.header_clone")
                connected = True
            else:
                if not lines:
                    return
                orig = lines[op["i"] % len(lines)]
                connected = op["connected"]
                virt = [l for l in ob.reachable_lines(g) if l.virtual and l.record_type == "S"]
                if virt and op["i"] % 3 == 0:
                    orig = virt[op["i"] % len(virt)]      # a placeholder
                    connected = True
                if id(orig) in dirty and not connected:
                    # (a stand-alone copy of a line that an earlier client edit may have made invalid would be
                    # built from the text of an invalid line: out of the claim, use the line itself)
                    connected = True
                if not connected:
                    # a stand-alone line with the same text
                    oo = core.call(gfapy.Line, ob.line_text(orig), vlevel=cfg["vlevel"],
                                   version=cfg["version"] if orig.record_type not in "H#" else None)
                    if not oo.ok:
                        connected = True
                    else:
                        orig = give_line_objects(oo.value, g, op.get("refs", "text"), st)
            st.count("probe.connected_original" if connected else "probe.standalone_original")
            if orig.virtual:
                st.count("probe.clone_of_virtual")
            pre_g = digest(ob.observe(g))
            pre_s = sstr(orig)
            c = core.call(orig.clone)
            st.count("oracle.clone_time")
            if not c.ok and c.kind == "gfapy" and id(orig) in dirty:
                # the original was edited into an invalid state by an earlier client edit: out of the claim
                orig = clone = None
                continue
            if not c.ok:
                raise core.Violation("clone-raised", "clone() of %r raised %s: %s" % (pre_s, c.excname, str(c.exc)[:200]),
                                     rt=orig.record_type, exc=c.excname, frame=c.frame)
            clone = c.value
            if clone.gfa is not None or clone.is_connected():
                raise core.Violation("clone-connected", "the clone of %r belongs to a Gfa" % pre_s, rt=orig.record_type)
            if sstr(clone) != pre_s:
                raise core.Violation("clone-text-differs", "clone of %r writes %r" % (pre_s, sstr(clone)),
                                     rt=orig.record_type)
            eq = core.call(lambda: clone == orig)
            if not eq.ok or not eq.value:
                raise core.Violation("clone-not-equal", "clone of %r does not compare equal (%s)" %
                                     (pre_s, eq.excname if not eq.ok else "False"), rt=orig.record_type)
            if sstr(orig) != pre_s or digest(ob.observe(g)) != pre_g:
                raise core.Violation("clone-modified-original", "cloning %r changed the original or its Gfa" % pre_s,
                                     rt=orig.record_type)
            held = gfa_lines_held(clone)
            if held:
                raise core.Violation("clone-not-detached", "the clone of %r holds line objects, not identifiers, in %r" %
                                     (pre_s, held), rt=orig.record_type)
            # reading is not editing: after the fields of one of the two were read (and lazily parsed), then those
            # of the other, the two still compare equal, both ways
            if id(orig) not in dirty:
                for who in (clone, orig):
                    read_all(who)
                    st.count("oracle.equal_after_reads")
                    e1 = core.call(lambda: clone == orig)
                    e2 = core.call(lambda: orig == clone)
                    if not (e1.ok and e2.ok and e1.value and e2.value) and sstr(clone) == sstr(orig) == pre_s:
                        raise core.Violation("clone-not-equal-after-read",
                                             "clone of %r: after the fields of the %s were read, clone == original is %s / %s" %
                                             (pre_s, "clone" if who is clone else "original",
                                              e1.value if e1.ok else e1.excname, e2.value if e2.ok else e2.excname),
                                             rt=orig.record_type)
            continue
        if op["op"] == "merge_clone" and orig is not None and clone is not None and orig is g.header:
            st.count("probe.header_clone_merged")
            for t in list(clone.tagnames):
                core.call(clone.delete, t)
            core.call(clone.set, "yq", [[1], {"a": [2]}])
            core.call(clone.set, "yr", [1, 2, 3])
            core.call(g.add_line, clone)
            continue
        if op["op"] == "edit" and orig is not None:
            side = op["side"]
            target, other = (clone, orig) if side == "clone" else (orig, clone)
            pre_other = sstr(other)
            pre_g = ob.observe(g) if side == "clone" else None
            res = apply_edit(target, op, st, connected, other)
            if res is None:
                continue
            out, desc = res
            if side == "orig":
                dirty.add(id(orig))
                keep.append(orig)
            st.count("probe.edit_clone" if side == "clone" else "probe.edit_original")
            if out.ok:
                st.count("probe.edit_applied")
            st.count("oracle.isolation")
            st.state(digest([orig.record_type, op["e"], side, pre_other]))
            if sstr(other) != pre_other:
                raise core.Violation("shared-state",
                                     "%s on the %s of %r changed the %s: %r -> %r" %
                                     (desc, side, orig.record_type, "original" if side == "clone" else "clone",
                                      pre_other, sstr(other)), rt=orig.record_type, e=op["e"], side=side)
            if side == "clone" and ob.observe(g) != pre_g:
                from .c08 import diff_obs
                raise core.Violation("clone-edit-changed-gfa",
                                     "%s on a clone of %r changed the Gfa: %s" % (desc, orig.record_type,
                                                                                  diff_obs(pre_g, ob.observe(g))),
                                     rt=orig.record_type, e=op["e"])
