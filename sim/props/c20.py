"""C20 — tag values set through the API survive write + read (durability).

line.set(tag, v) returning is the acknowledgement; checkpoint (str / to_file on
SimDisk) + dirty restart (new Line / from_file) is the crash; after restart
get(tag) must equal v with the same datatype. Unrepresentable values must be
reported by validation (and by writing at level >= 2), never silently emitted.
"""
import math
import re
import gfapy
from .. import core
from ..world import World, install_seams, remove_seams, to_pyvalue
from ..rng import digest

PROP = "C20"
RUNS = {"quick": 60000, "thorough": 2500000}
WALL = {"quick": 280, "thorough": 3500}
RULE = ("one run = one line (connected or stand-alone, vlevel 0-3) with 1-6 tag writes from a boundary-"
        "biased value pool interleaved with other edits, then checkpoint + restart + read; distinct = "
        "distinct (datatype, value digest, vlevel, path) tuples")
PROBES = ["representable_roundtrip", "unrepresentable_reported", "declared_datatype", "default_datatype",
          "b_subtype_boundary", "connected_file_restart", "overwrite_same_tag", "set_rejected_at_level3",
          "nonfinite_float", "string_with_control", "interleaved_edit", "set_none", "set_via_accessor", "header_add",
          "field_arrays_built_empty"]
STUBS = ["disk: gfapy.gfa.open -> SimDisk"]

BASE_LINES = {
    "gfa1": ["S\tA\tACGT", "L\tA\t+\tB\t-\t3M", "C\tA\t+\tB\t-\t2\t2M", "P\tp\tA+,B-\t3M", "H\tVN:Z:1.0"],
    "gfa2": ["S\tA\t4\tACGT", "E\te\tA+\tB-\t0\t2\t2\t4$\t2M", "G\tg\tA+\tB-\t10\t*", "F\tA\tr+\t0\t4$\t0\t4\t*",
             "O\to\tA+ B-", "U\tu\tA B", "X\tfoo\tbar", "S\tA\t4\tACGT\tLN:Z:abc"],
}
INT_POOL = [0, 1, -1, 127, 128, -128, -129, 255, 256, 32767, 32768, -32768, -32769, 65535, 65536,
            2 ** 31 - 1, 2 ** 31, -2 ** 31, -2 ** 31 - 1, 2 ** 32 - 1, 2 ** 32, 10 ** 18]
FLOAT_POOL = [0.0, -0.0, 0.5, -1.25, 1e-05, 2.5e+20, 1e+100, 1e-300, 123.456, 3.0, 1.0e15, 1.7976931348623157e+308]


def val_pool(rng):
    """(json-able value spec, kind) ; kind is the python class seen by gfapy"""
    k = rng.choice(["int", "int", "float", "str", "str", "char", "json", "intarr", "floatarr", "mixarr",
                    "numarray", "bytearray", "nonfinite", "ctrlstr", "emptystr", "emptybytes", "boollist", "bigint",
                    "json_odd", "none", "bool"])
    if k == "bool":
        return rng.choice([True, False]), k
    if k == "boollist":
        return {"__t": "boollist", "v": rng.choice([[True, False], [1, True], [False]])}, k
    if k == "bigint":
        # integers a float holds exactly, does not hold exactly, cannot hold at all
        return {"__t": "bigint", "v": rng.choice(["2**53", "2**53+1", "10**400", "-(2**60)+1", "10**22"])}, k
    if k == "json_odd":
        return rng.choice([{"__t": "json_nan", "v": "nan"}, {"__t": "json_nan", "v": "inf"},
                           {"__t": "intkeydict", "v": [[1, 2]]}, {"__t": "intkeydict", "v": [[1, "a"], ["1", "b"]]},
                           {"__t": "tuplelist"}]), k
    if k == "none":
        return {"__t": "none"}, k
    if k == "int":
        return rng.choice(INT_POOL + [rng.randint(-10 ** 6, 10 ** 6)]), k
    if k == "float":
        return {"__t": "float", "v": rng.choice(FLOAT_POOL + [rng.uniform(-1e6, 1e6)])}, k
    if k == "str":
        n = rng.randint(1, 10)
        return "".join(rng.choice("abcXYZ 019:;,.*+-_#/~!{}[]\"'") for _ in range(n)), k
    if k == "char":
        return rng.choice("abcXYZ!~0*+-:"), k
    if k == "json":
        return rng.choice([{"a": 1}, {"k": [1, {"z": None}], "b": "x y"}, {}, {"t": "a\tb"}, {"n": {"m": [1.5, True]}},
                           ["a", 1], [1, "a", None], [[1, 2], [3]], {"u": "é"}, [], []]), k
    if k == "intarr":
        pool = rng.choice([[0, 255], [0, 256], [65535], [65536], [2 ** 32 - 1], [2 ** 32], [-128, 127], [-129],
                           [-32768, 32767], [-32769], [-2 ** 31, 2 ** 31 - 1], [-2 ** 31 - 1], [-1, 2 ** 31],
                           [rng.randint(-300, 300) for _ in range(3)]])
        return [rng.choice(pool) for _ in range(rng.randint(1, 4))] + [pool[0]], k
    if k == "floatarr":
        return {"__t": "floatlist", "v": [rng.choice(FLOAT_POOL) for _ in range(rng.randint(1, 4))]}, k
    if k == "mixarr":
        return {"__t": "mixlist", "v": [1, 2.5, rng.randint(0, 9)]}, k
    if k == "numarray":
        return {"__t": "numarray", "v": [rng.choice([0, 1, 255, 256, -1, 70000]) for _ in range(rng.randint(0, 4))]}, k
    if k == "bytearray":
        return {"__t": "bytearray", "v": [rng.randint(0, 255) for _ in range(rng.randint(1, 5))]}, k
    if k == "nonfinite":
        return {"__t": "float", "v": rng.choice(["inf", "-inf", "nan"])}, k
    if k == "ctrlstr":
        return rng.choice(["a\tb", "a\nb", "\x01", "x\x7f", "été", "tab\t"]), k
    if k == "emptystr":
        return "", k
    return {"__t": "bytearray", "v": []}, "emptybytes"


def pyval(v):
    if isinstance(v, dict) and "__t" in v:
        t = v["__t"]
        if t == "float":
            return float(v["v"])
        if t == "floatlist":
            return [float(x) for x in v["v"]]
        if t == "mixlist":
            return list(v["v"])
        if t == "numarray":
            return gfapy.NumericArray(v["v"])
        if t == "bytearray":
            return gfapy.ByteArray(bytes(v["v"]))
        if t == "boollist":
            return list(v["v"])
        if t == "bigint":
            return eval(v["v"], {"__builtins__": {}})
        if t == "json_nan":
            return {"a": [1, float(v["v"])]}
        if t == "intkeydict":
            return dict((a, b) for a, b in v["v"])
        if t == "tuplelist":
            return [(1, 2), "x"]
        if t == "none":
            return None
    return v


def default_dtype(x):
    """documented defaults: i, f, Z, J, B, H (independent transcription)"""
    if isinstance(x, gfapy.NumericArray):
        return "B"
    if isinstance(x, gfapy.ByteArray):
        return "H"
    if isinstance(x, bool):
        return None
    if isinstance(x, int):
        return "i"
    if isinstance(x, float):
        return "f"
    if isinstance(x, str):
        return "Z"
    if isinstance(x, dict):
        return "J"
    if isinstance(x, list):
        if not x:
            return "J"       # the empty list: of the documented defaults only J can write it (a B array has >= 1 element)
        if all(isinstance(e, int) and not isinstance(e, bool) for e in x) or all(isinstance(e, float) for e in x):
            return "B"
        return "J"
    return None


def int_subtype(vals):
    lo, hi = min(vals), max(vals)
    if lo < 0:
        for st, b in (("c", 7), ("s", 15), ("i", 31)):
            if -(2 ** b) <= lo and hi < 2 ** b:
                return st
        return None
    for st, b in (("C", 8), ("S", 16), ("I", 32)):
        if hi < 2 ** b:
            return st
    return None


PRINT = re.compile(r"^[ !-~]+$")
TAGRE = {
    "i": re.compile(r"^[-+]?[0-9]+$"),
    "f": re.compile(r"^[-+]?[0-9]*\.?[0-9]+([eE][-+]?[0-9]+)?$"),
    "Z": PRINT,
    "A": re.compile(r"^[!-~]$"),
    "J": PRINT,
    "H": re.compile(r"^([0-9A-F][0-9A-F])+$"),
    "B": re.compile(r"^[cCsSiIf](,[-+]?[0-9]*\.?[0-9]+([eE][-+]?[0-9]+)?)+$"),
}


def representable(x, dt):
    """-> True / False / None(unspecified) : can datatype dt represent python value x?"""
    if isinstance(x, str) and dt not in ("Z", "A"):
        return None      # gfapy takes a string as an already encoded field: not in the claim
    if dt == "i":
        return isinstance(x, int) and not isinstance(x, bool)
    if dt == "f":
        if isinstance(x, float):
            return math.isfinite(x)
        if isinstance(x, bool):
            return False
        if isinstance(x, int):
            # written as an integer, read back as a float: equal only if a float holds it exactly
            try:
                return float(x) == x
            except OverflowError:
                return False
        return None
    if dt == "Z":
        return isinstance(x, str) and bool(PRINT.match(x))
    if dt == "A":
        return isinstance(x, str) and bool(re.match(r"^[!-~]$", x))
    if dt == "J":
        if isinstance(x, (dict, list)) and not isinstance(x, gfapy.NumericArray):
            try:
                import json
                s = json.dumps(x, allow_nan=False)
                return bool(PRINT.match(s)) and json.loads(s) == x
            except Exception:
                return False
        return None
    if dt == "H":
        if isinstance(x, gfapy.ByteArray):
            return len(x) > 0
        return None
    if dt == "B":
        if isinstance(x, list):
            if not x:
                return None
            if all(isinstance(e, float) for e in x):
                return all(math.isfinite(e) for e in x)
            if all(isinstance(e, int) and not isinstance(e, bool) for e in x):
                return int_subtype(x) is not None
            return False
        return None
    return None


def gen(streams, tier, i):
    cfg = streams.get("config")
    version = cfg.choice(["gfa1", "gfa2"])
    vlevel = cfg.choice([0, 1, 1, 2, 3])
    base = cfg.choice(BASE_LINES[version])
    connected = cfg.random() < 0.5 and not base.startswith("H")
    vr = streams.get("values")
    ops = []
    names = ["xa", "xb", "zz", "Yq"]
    if "\tLN:Z:" in base:
        names = names + ["LN", "LN"]      # a custom tag with the name of an alias (LN -> slen)
    for _ in range(vr.randint(1, 6)):
        r = vr.random()
        if r < 0.75:
            v, kind = val_pool(vr)
            op = {"op": "set", "tag": vr.choice(names), "value": v, "kind": kind}
            if vr.random() < 0.35:
                op["dtype"] = vr.choice("AifZJHB")
            if vr.random() < 0.25:
                op["via"] = "attr"       # line.<tag> = v
            if base.startswith("H") and vr.random() < 0.4:
                op["via"] = "hadd"       # header.add(tag, v): a further value of a multi-value tag
                op["tag"] = vr.choice(names[:2])
            ops.append(op)
        elif r < 0.85:
            ops.append({"op": "delete", "tag": vr.choice(names)})
        elif r < 0.93:
            ops.append({"op": "other_edit", "tag": "oe", "value": vr.randint(0, 99)})
        else:
            ops.append({"op": "checkpoint", "how": vr.choice(["str", "file"])})
    ops.append({"op": "checkpoint", "how": vr.choice(["str", "file", "str"])})
    if vr.random() < 0.08:
        # two multi-valued header tags given as field arrays that the caller builds empty and fills afterwards
        ops.append({"op": "field_arrays", "a": [vr.randint(0, 9) for _ in range(vr.randint(1, 3))],
                    "b": [vr.randint(10, 19) for _ in range(vr.randint(1, 3))]})
    return {"cfg": {"version": version, "vlevel": vlevel, "base": base, "connected": connected}, "ops": ops}


def run(scn, st):
    cfg = scn["cfg"]
    vlevel = cfg["vlevel"]
    w = World(st)
    o = core.call(gfapy.Line, cfg["base"], vlevel=vlevel, version=cfg["version"] if cfg["base"][0] not in "H#" else None)
    if not o.ok:
        return
    line = o.value
    g = None
    if cfg["connected"]:
        g = gfapy.Gfa(vlevel=vlevel, version=cfg["version"])
        extra = ["S\tA\tACGT", "S\tB\tAC"] if cfg["version"] == "gfa1" else ["S\tA\t4\tACGT", "S\tB\t4\t*"]
        for e in extra:
            if e.split("\t")[1] != (line.name if hasattr(line, "name") and isinstance(getattr(line, "name", None), str) else None) \
                    or line.record_type != "S":
                core.call(g.add_line, e)
        r = core.call(g.add_line, line)
        if not r.ok:
            g = None
    acked = {}      # tag -> (python value, expected datatype, representable)
    mydt = {}       # the harness's own record of declared datatypes (forgotten when the tag is deleted)
    fuzzy = set()
    unk = set()
    if "\tLN:Z:abc" in cfg["base"]:
        acked["LN"] = ("abc", "Z", True)
        mydt["LN"] = "Z"
    for n, op in enumerate(scn["ops"]):
        st.step()
        st.count("op." + op["op"])
        if op["op"] == "field_arrays":
            st.count("probe.field_arrays_built_empty")
            st.count("oracle.field_arrays")
            hh = core.call(gfapy.Line, "H", vlevel=vlevel)
            if not hh.ok:
                continue
            fa, fb = gfapy.FieldArray("i"), gfapy.FieldArray("i")
            for x in op["a"]:
                fa.append(x)
            for x in op["b"]:
                fb.append(x)
            if not (core.call(hh.value.set, "za", fa).ok and core.call(hh.value.set, "zb", fb).ok):
                continue
            t = core.call(str, hh.value)
            want = ["za:i:%d" % x for x in op["a"]] + ["zb:i:%d" % x for x in op["b"]]
            got = sorted(f for f in (t.value.split("\t")[1:] if t.ok else []))
            if not t.ok or got != sorted(want):
                raise core.Violation("written-differs", "header tags za=%r, zb=%r (field arrays filled after they were "
                                     "created) are written as %r" % (op["a"], op["b"], t.value if t.ok else t.excname),
                                     kind="field_arrays")
            continue
        if op.get("tag") == "LN" and "LN" not in acked:
            # once the LN tag is gone the name is the alias of slen again: not a tag operation
            continue
        if op.get("tag") in fuzzy and op["op"] in ("set", "delete"):
            # a multi-value header tag: single-value expectations do not apply (only the grammar oracle)
            if op["op"] == "set":
                core.call(line.add if op.get("via") == "hadd" else line.set, op["tag"], pyval(op["value"]))
            else:
                core.call(line.delete, op["tag"])
            continue
        if op["op"] == "set" and op["kind"] != "none" and op.get("tag") in unk:
            # the tag holds a value for which no default datatype is documented (a boolean): whatever
            # datatype it got is kept, so later values have no expectation until the tag is deleted
            x = pyval(op["value"])
            r = core.call(setattr, line, op["tag"], x) if op.get("via") == "attr" else core.call(line.set, op["tag"], x)
            if r.ok:
                acked[op["tag"]] = (x, None, None)
            continue
        if op["op"] == "set" and op["kind"] == "none":
            # set(tag, None) is the documented other way of deleting a tag
            had = core.call(line.get, op["tag"])
            core.call(line.set, op["tag"], None)
            acked.pop(op["tag"], None)
            unk.discard(op["tag"])
            if not (had.ok and had.value is None):
                mydt.pop(op["tag"], None)
            st.count("probe.set_none")
            continue
        if op["op"] == "set":
            x = pyval(op["value"])
            tag = op["tag"]
            declared = None
            if "dtype" in op:
                r = core.call(line.set_datatype, tag, op["dtype"])
                if r.ok:
                    declared = op["dtype"]
                    st.count("probe.declared_datatype")
            if declared is None:
                # an existing (or declared) tag keeps its datatype; a deleted tag starts afresh
                dt = mydt.get(tag) or default_dtype(x)
                if tag not in mydt:
                    st.count("probe.default_datatype")
            else:
                dt = declared
                mydt[tag] = declared
            rep = representable(x, dt) if dt else None
            if tag in acked:
                st.count("probe.overwrite_same_tag")
            if op["kind"] == "nonfinite":
                st.count("probe.nonfinite_float")
            if op["kind"] == "ctrlstr":
                st.count("probe.string_with_control")
            if op["kind"] == "intarr":
                st.count("probe.b_subtype_boundary")
            if op.get("via") == "hadd" and line.record_type == "H":
                # a further value under the same header tag: the expectations of a single value do not apply;
                # what is written is still judged by the grammar of every tag (checkpoint)
                st.count("probe.header_add")
                r = core.call(line.add, tag, x)
                fuzzy.add(tag)
                acked[tag] = (x, dt, None)
                continue
            if op.get("via") == "attr":
                st.count("probe.set_via_accessor")
                r = core.call(setattr, line, tag, x)
            else:
                r = core.call(line.set, tag, x)
            st.state(digest([dt, repr(x), vlevel, cfg["connected"]]))
            if not r.ok:
                st.count("oracle.set_outcome")
                if rep is True:
                    raise core.Violation("valid-assignment-rejected",
                                         "vlevel %d: set(%r, %r) with datatype %s raised %s: %s" %
                                         (vlevel, tag, x, dt, r.excname, str(r.exc)[:200]),
                                         dtype=dt, kind=op["kind"], exc=r.excname, frame=r.frame)
                st.count("probe.set_rejected_at_level3")
                # not acknowledged: the previous value (if any) stays acknowledged... unless the
                # datatype was re-declared, which makes the old value's status unspecified
                if declared is not None and tag in acked:
                    # the old value now sits under a re-declared datatype: documented as possibly invalid
                    acked[tag] = (acked[tag][0], declared, None)
                continue
            acked[tag] = (x, dt, rep)
            if dt:
                mydt[tag] = dt
            else:
                unk.add(tag)
            if rep is True:
                # acknowledged and representable: readable at once, under the expected datatype
                st.count("oracle.read_after_set")
                rg = core.call(line.get, tag)
                rd = core.call(line.get_datatype, tag)
                if not rg.ok or not rd.ok:
                    bad_r = rg if not rg.ok else rd
                    raise core.Violation("read-after-set-failed",
                                         "vlevel %d: after %s(%r, %r) the tag cannot be read: %s: %s" %
                                         (vlevel, op.get("via", "set"), tag, x, bad_r.excname, str(bad_r.exc)[:200]),
                                         dtype=dt, exc=bad_r.excname)
                if rd.value != dt:
                    raise core.Violation("datatype-after-set",
                                         "vlevel %d: after %s(%r, %r) get_datatype answers %r, expected %r" %
                                         (vlevel, op.get("via", "set"), tag, x, rd.value, dt), dtype=dt)
        elif op["op"] == "delete":
            had = core.call(line.get, op["tag"])
            core.call(line.delete, op["tag"])
            acked.pop(op["tag"], None)
            unk.discard(op["tag"])
            if not (had.ok and had.value is None):
                # delete() removes an *existing* tag (and forgets its datatype); a datatype declared for
                # a tag which has no value yet stays declared, as documented for set_datatype
                mydt.pop(op["tag"], None)
        elif op["op"] == "other_edit":
            st.count("probe.interleaved_edit")
            core.call(line.set, op["tag"], op["value"])
        elif op["op"] == "checkpoint":
            checkpoint(w, line, g, acked, op, cfg, st, n)


def checkpoint(w, line, g, acked, op, cfg, st, n):
    vlevel = cfg["vlevel"]
    bad = [(t, a) for t, a in acked.items() if a[2] is False]
    # ---- unrepresentable values must be reported
    for tag, (x, dt, rep) in sorted(acked.items()):
        if rep is False:
            st.count("oracle.unrepresentable_reported")
            st.count("probe.unrepresentable_reported")
            r = core.call(line.validate_field, tag)
            if r.ok:
                raise core.Violation("invalid-not-reported",
                                     "vlevel %d: %r=%r cannot be represented as %s but validate_field passes" %
                                     (vlevel, tag, x, dt), dtype=dt, how="validate_field")
            if vlevel >= 2:
                r = core.call(line.field_to_s, tag, True)
                if r.ok:
                    raise core.Violation("invalid-not-reported",
                                         "vlevel %d: %r=%r cannot be represented as %s but field_to_s wrote %r" %
                                         (vlevel, tag, x, dt, r.value), dtype=dt, how="field_to_s")
    r = core.call(str, line)
    if r.ok and "# INVALID" not in r.value:
        # whatever was assigned: a tag which is written without a flag matches its datatype's grammar
        st.count("oracle.every_written_tag_grammatical")
        for f in r.value.split("\t")[1:]:
            m = re.match(r"^(xa|xb|zz|Yq|oe|LN):(.*)$", f, re.S)
            if m is None:
                continue
            m2 = re.match(r"^([AifZJHB]):(.*)$", m.group(2), re.S)
            if m2 is None or not TAGRE[m2.group(1)].match(m2.group(2)):
                raise core.Violation("silently-malformed",
                                     "vlevel %d: str(line) emitted the field %r without raising or flagging" %
                                     (vlevel, f), dtype=(m2.group(1) if m2 else "?"))
    if bad:
        if r.ok and "# INVALID" not in r.value:
            # silently malformed?  every bad tag must at least not look valid
            for tag, (x, dt, rep) in bad:
                m = re.search(r"(?:^|\t)%s:%s:([^\t]*)" % (re.escape(tag), dt), r.value)
                if m is None or not TAGRE[dt].match(m.group(1)):
                    raise core.Violation("silently-malformed",
                                         "vlevel %d: str(line) emitted %r for the unrepresentable %r=%r (%s) without "
                                         "raising or flagging" % (vlevel, r.value, tag, x, dt), dtype=dt)
        return
    if any(a[2] is None for a in acked.values()):
        return      # some value of unspecified representability: no text oracle
    if not r.ok:
        raise core.Violation("write-failed", "vlevel %d: str(line) raised %s with only representable tags %r" %
                             (vlevel, r.excname, {t: a[0] for t, a in acked.items()}), exc=r.excname, frame=r.frame)
    text = r.value
    if "# INVALID" in text:
        raise core.Violation("flagged-valid", "vlevel %d: str(line) flags representable tags as invalid: %r" %
                             (vlevel, text))
    fields = text.split("\t")
    for tag, (x, dt, rep) in sorted(acked.items()):
        st.count("oracle.written_grammar")
        hits = [f for f in fields if f.startswith(tag + ":")]
        if len(hits) != 1:
            raise core.Violation("tag-not-written", "tag %s written %d times in %r" % (tag, len(hits), text), dtype=dt)
        tn, tt, tv = hits[0].split(":", 2)
        if tt != dt:
            raise core.Violation("wrong-datatype-written", "%r=%r: expected datatype %s, written %r" %
                                 (tag, x, dt, hits[0]), dtype=dt)
        if not TAGRE[dt].match(tv):
            raise core.Violation("grammar", "%r=%r written as %r which is not %s syntax" % (tag, x, hits[0], dt), dtype=dt)
        if dt == "B" and isinstance(x, list) and x and all(isinstance(e, int) for e in x):
            if tv.split(",")[0] != int_subtype(x):
                raise core.Violation("b-subtype", "%r written as %r, smallest subtype is %s" % (x, tv, int_subtype(x)),
                                     dtype=dt)
    # ---- crash + restart
    how = op["how"]
    if how == "file" and g is not None and line.is_connected():
        st.count("probe.connected_file_restart")
        install_seams(w.disk, w.clock)
        try:
            r1 = core.call(g.to_file, "/sim/t.gfa")
            w.disk.sync()
            r2 = core.call(gfapy.Gfa.from_file, "/sim/t.gfa", vlevel=vlevel) if r1.ok else r1
        finally:
            remove_seams()
        if not r2.ok:
            raise core.Violation("restart-failed", "restart from the written file raised %s: %s" %
                                 (r2.excname, str(r2.exc)[:200]), exc=r2.excname, frame=r2.frame)
        g2 = r2.value
        from ..gtext import canon_lines

        def _c(t):
            # (an integer under an f tag is written as '-1' and, read back as -1.0, written as '-1.0')
            try:
                return canon_lines(t, cfg["version"])
            except Exception:
                return [t]
        cand = [l for l in g2.lines if str(l) == text or _c(str(l)) == _c(text)]
        if not cand:
            raise core.Violation("line-lost", "the written line %r is not in the restarted Gfa" % text)
        l2 = cand[0]
    else:
        r2 = core.call(gfapy.Line, text, vlevel=vlevel, version=cfg["version"] if text[0] not in "H#" else None)
        if not r2.ok:
            raise core.Violation("restart-failed", "gfapy.Line(%r) raised %s: %s" % (text, r2.excname, str(r2.exc)[:200]),
                                 exc=r2.excname, frame=r2.frame)
        l2 = r2.value
    for tag, (x, dt, rep) in sorted(acked.items()):
        st.count("oracle.read_back_equal")
        st.count("probe.representable_roundtrip")
        rv = core.call(l2.get, tag)
        rd = core.call(l2.get_datatype, tag)
        if not rv.ok:
            raise core.Violation("read-back-failed", "get(%r) after restart raised %s" % (tag, rv.excname), dtype=dt)
        y = rv.value
        same = (y == x) and not (isinstance(x, float) and isinstance(y, float) and
                                 math.copysign(1, x) != math.copysign(1, y))
        if isinstance(x, (list, dict)) and not isinstance(x, gfapy.NumericArray):
            same = same or (list(y) == x if isinstance(x, list) and isinstance(y, list) else False)
        if not same:
            raise core.Violation("read-back-differs", "%r: wrote %r (%s), read back %r (%s) from %r" %
                                 (tag, x, dt, y, rd.value if rd.ok else "?", text), dtype=dt)
        if rd.ok and rd.value != dt:
            raise core.Violation("datatype-changed", "%r: datatype %s became %s after restart" % (tag, dt, rd.value),
                                 dtype=dt)
