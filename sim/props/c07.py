"""C07 — only gfapy.Error escapes, and every call returns.

Workload: record-corruption / truncation / blank-record faults on the transport
and on the simulated disk (torn last line, blank lines, CRLF), bad API calls
with arbitrary strings interleaved in a history, bin/gfapy-validate in-process.
Oracle: outcome of every call in {returns, raises gfapy.Error}; deterministic
line-event budget per call (liveness).
"""
import io
import os
import re
import runpy
import sys
import gfapy
from .. import gen as G, hist, core, gtext
from ..world import World, install_seams, remove_seams
from ..rng import digest

PROP = "C07"
RUNS = {"quick": 60000, "thorough": 1500000}
WALL = {"quick": 280, "thorough": 3500}
BUDGET = 5_000_000
RULE = ("one run = a generated document with injected record faults, delivered through a "
        "scheduler-chosen entry point, followed by bad API calls; every call classified; distinct = "
        "distinct (call kind, argument digest) pairs that reached gfapy")
PROBES = ["gfapy_error", "corrupt_accepted", "validate_script", "torn_line", "budget_armed",
          "bad_api_raised", "bad_api_returned", "flipped_byte_progress"]
STUBS = ["disk (gfapy.gfa.open -> SimDisk)", "record transport"]
ASSUMPTIONS = ["OSError from the disk seam is not a text input and is excluded (DESIGN §1.2)"]

WEIRD_STRINGS = ["", "*", " ", "\t", "a b", "A\tB", "\n", "+", "-", "x+", "x-", "0", "-1", "$", "1$",
                 "\x00", "\x7f", "é", "名", "A,B", "a+,b-", "::", "xx:i:", "xx:Z", "VN", "TS", "LN",
                 "name", "sid", "from_segment", "overlap", "items", "record_type", "field1", "%s", "{}",
                 # positional field names of every record type
                 "external", "sid1", "sid2", "slen", "sequence", "from_orient", "to_orient", "pos", "beg1", "end1",
                 "beg2", "end2", "pid", "gid", "eid", "path_name", "segment_names", "overlaps", "alignment", "disp",
                 "var", "s_beg", "s_end", "f_beg", "f_end", "to_segment", "content",
                 # names of instance attributes of a line, of methods and of accessors
                 "_data", "vlevel", "_vlevel", "_datatype", "_gfa", "_refs", "_virtual", "_version", "validate",
                 "try_get_xx", "__dict__", "__class__",
                 # digits that are not ASCII digits (str.isdigit() accepts them, int() does or does not)
                 "\u00b2", "\u0661\u0662", "\uff11", "\u2460", "1\u00b2",
                 # longer than Python's limit for int(str)
                 "1" * 5000]
CORRUPT_CHARS = list("*$+-,:;\t 0Aa~!{}[]\"'\\") + ["\r", "\x00", "é", "", "\u00b2", "\u0663", "7" * 4500]


def corrupt(rng, line):
    """One single-point fault on a record. Returns (kind, new_text)."""
    kind = rng.choice(["replace", "insert", "delete", "dropfield", "dupfield", "tagtype",
                       "truncate", "blank", "empty", "swapfields", "emptyfield", "digits", "digits", "tagname",
                       "tagvalue", "newline", "cigarop"])
    f = line.split("\t")
    if kind == "cigarop":
        # the code of one operation of an alignment (not necessarily the first) replaced by another letter:
        # the codes = X S H N exist in GFA1 only
        import re as _re
        cands = [j for j, x in enumerate(f) if j > 0 and _re.match(r"^([0-9]+[MIDPX=SHN])+$", x)]
        if cands:
            j = rng.choice(cands)
            ops_ = _re.findall(r"[0-9]+[MIDPX=SHN]", f[j])
            if len(ops_) < 2 or rng.random() < 0.3:
                ops_.append("%d%s" % (rng.randint(1, 3), rng.choice("MD")))
            i_ = rng.randrange(1, len(ops_)) if rng.random() < 0.7 else 0
            ops_[i_] = ops_[i_][:-1] + rng.choice("=XSHNQ")
            f[j] = "".join(ops_)
            return kind, "\t".join(f)
        kind = "replace"
    if kind == "digits":
        # one run of digits replaced by non-ASCII digits or by more digits than int() converts
        import re as _re
        runs = list(_re.finditer(r"[0-9]+", line))
        if runs:
            m = rng.choice(runs)
            new = rng.choice(["\u00b2", "\u0661\u0662", "\uff11\uff12", m.group(0) + "\u00b3", "3" * 4400, "9" * 5000])
            return kind, line[:m.start()] + new + line[m.end():]
        # identifiers too
        if len(f) > 1:
            f[1] = rng.choice(["\u00b2", "\u0661", "8" * 4400])
            return kind, "\t".join(f)
    if kind == "replace" and line:
        p = rng.randrange(len(line))
        return kind, line[:p] + rng.choice(CORRUPT_CHARS) + line[p + 1:]
    if kind == "insert":
        p = rng.randint(0, len(line))
        return kind, line[:p] + rng.choice(CORRUPT_CHARS) + line[p:]
    if kind == "delete" and line:
        p = rng.randrange(len(line))
        return kind, line[:p] + line[p + 1:]
    if kind == "dropfield" and len(f) > 1:
        p = rng.randrange(1, len(f))
        return kind, "\t".join(f[:p] + f[p + 1:])
    if kind == "dupfield" and len(f) > 1:
        p = rng.randrange(1, len(f))
        return kind, "\t".join(f[:p] + [f[p]] + f[p:])
    if kind == "tagtype":
        idx = [i for i, x in enumerate(f) if gtext.TAG_RE.match(x)]
        if idx:
            i = rng.choice(idx)
            n, t, v = f[i].split(":", 2)
            f[i] = "%s:%s:%s" % (n, rng.choice("AifZJHBx"), v)
            return kind, "\t".join(f)
    if kind in ("tagname", "tagvalue"):
        idx = [i for i, x in enumerate(f) if gtext.TAG_RE.match(x)]
        if idx:
            i = rng.choice(idx)
            n, t, v = f[i].split(":", 2)
            if kind == "tagname":
                # a custom tag takes the name of a tag predefined for some record type
                f[i] = "%s:%s:%s" % (rng.choice(["VN", "TS", "LN", "RC", "FC", "KC", "SH", "UR", "MQ", "NM", "ID",
                                                "SN", "SO", "SR"]), t, v)
            else:
                pool = {"f": ["1e999", "-1e999", "9" * 400, "nan", "inf"], "J": ["1", "null", "true", '"a"', "[NaN]",
                                                                                "[Infinity]", "1.5"],
                        "B": ["f,1e999", "f,nan", "c,", "C,256", "i,1,", "f"], "i": ["1e3", "0x10", "1_0"],
                        "H": ["1a", "A"], "A": ["ab", ""], "Z": ["a\tb"]}.get(t, ["*"])
                f[i] = "%s:%s:%s" % (n, t, rng.choice(pool))
            return kind, "\t".join(f)
        elif line and not line.startswith("#"):
            return kind, line + "\t" + rng.choice(["VN:Z:x", "TS:Z:1", "LN:Z:a", "xx:J:1", "xx:f:1e999", "ID:i:1"])
    if kind == "newline" and len(f) > 1:
        # a line break inside a record offered as one line
        i = rng.randrange(len(f))
        f[i] = f[i] + "\n"
        return kind, "\t".join(f)
    if kind == "truncate" and line:
        return kind, line[:rng.randrange(len(line))]
    if kind == "blank":
        return kind, rng.choice([" ", "\t", "  \t "])
    if kind == "empty":
        return kind, ""
    if kind == "swapfields" and len(f) > 2:
        a, b = rng.sample(range(1, len(f)), 2)
        f[a], f[b] = f[b], f[a]
        return kind, "\t".join(f)
    if kind == "emptyfield" and len(f) > 1:
        f[rng.randrange(1, len(f))] = ""
        return kind, "\t".join(f)
    return "replace0", ("?" + line[1:]) if line else "?"


SPECIAL_DOCS = [
    ["P\tp1\tA+\t*"],                                   # one-segment path over undefined segment
    ["H\txx:i:1", "H\txx:i:2", "H\txx:i:3"],             # repeated header tag
    ["U\tu1\tu2", "U\tu2\tu1"],                          # mutually nested sets
    # custom records made of tags only, or of the record type alone
    ["H\tVN:Z:2.0", "T\txx:i:1\tyy:Z:a", "Q", "S\ta\t4\t*", "XX\tzz:J:[1]"],
    # groups that contain each other, over segments and edges that are then removed (the cascade must end)
    ["S\ts1\t4\t*", "S\ts2\t4\t*", "U\tu1\ts1 u2", "U\tu2\ts2 u1"],
    ["S\ts1\t4\t*", "S\ts2\t4\t*", "S\ts3\t4\t*", "U\tu1\ts1 u2", "U\tu2\ts2 u3", "U\tu3\ts3 u1", "U\tu4\tu1 s3"],
    ["S\ts1\t4\t*", "S\ts2\t4\t*", "E\te1\ts1+\ts2+\t2\t4$\t0\t2\t*", "O\to1\ts1+ e1+ o2+", "O\to2\ts2+ o1-", "U\tu1\to1 e1"],
    ["S\tA\t10\t*", "U\tA\tx y"],                        # group named like a segment
    ["S\tA\t*", "S\tB\t*", "L\tA\t+\tA\t-\t*", "L\tA\t+\tB\t+\t*"],
    ["O\to1\to2+", "O\to2\to3-", "O\to3\to1+"],
    ["S\ta\t5\t*", "E\t*\ta+\ta-\t$\t5$\t0\t5$\t*"],     # lone $
    ["S\ta\t*\txx:J:{"],                                 # malformed JSON
    ["E\te\ta+\tb-\t0\t1\t0\t1\t1,2,x"],
    ["G\tg\ta+\tb-\t10\t*"],
    ["F\ta\tr+\t0\t1\t0\t1\t*"],
    ["#"], ["#", "# "], ["#\tx"],
    # adversarial for backtracking validators: a long list with one malformed element at the end
    ["S\ta\t*", "P\tp\t" + ",".join(["a+"] * 24) + ",a\t*"],
    ["S\ta\t4\t*", "O\tp\t" + " ".join(["a+"] * 24) + " a"],
    ["S\ta\t*\txx:f:" + "1" * 3000 + "x", "S\tb\t*\txx:B:f," + "1" * 3000 + "x"],
    # JSON nested close to the interpreter's recursion limit (parses, then has to be written)
    ["H\txx:J:" + "[" * 1300 + "]" * 1300, "S\ta\t*"],
    ["H\txx:J:" + "[" * 1400 + "]" * 1400, "S\ta\t*"],
    ["H\txx:J:" + "[" * 1450 + "]" * 1450, "S\ta\t*"],
    ["S\ta\t*\txx:J:" + "[" * 1480 + "]" * 1480],
    ["S\ta\t*\txx:J:" + "[" * 1492 + "]" * 1492],
    ["S\ta\t*", "C\ta\t+\ta\t+\t0\t*"],
    ["#"], ["# "], ["#\t"], ["H"], ["S"], ["L"], ["\t"], ["X"], ["S\t"], ["H\t"],
    # an identifier first used as a reference to an undefined segment, then defined as another record type
    ["E\te1\tx+\ty-\t0\t1\t0\t1\t*", "G\tx\ty+\ty-\t5\t*", "S\ty\t4\tACGT"],
    ["F\tx\tr+\t0\t1\t0\t1\t*", "O\tx\ty+", "S\ty\t4\t*"],
    ["E\te1\tx+\ty-\t0\t1\t0\t1\t*", "U\tx\ty", "E\ty\tx+\tx-\t0\t1\t0\t1\t*"],
    ["L\tx\t+\ty\t-\t*", "P\tx\ty+\t*", "S\ty\t*"],
    ["C\tx\t+\ty\t-\t0\t*", "L\ty\t+\ty\t-\t*\tID:Z:x"],
    ["G\tg\tx+\ty-\t5\t*", "E\tx\ty+\ty-\t0\t1\t0\t1\t*", "S\tx\t4\t*"],
    # identifiers of L/C lines given with another datatype
    ["S\ta\t*", "S\tb\t*", "L\ta\t+\tb\t+\t*\tID:J:[1]"],
    ["S\ta\t*", "S\tb\t*", "C\ta\t+\tb\t+\t0\t*\tID:J:{\"a\":1}", "L\ta\t+\tb\t-\t*\tID:B:i,1,2"],
    ["S\ta\t*", "L\ta\t+\ta\t+\t*\tID:f:1.5", "L\ta\t+\ta\t-\t*\tID:i:5", "P\t5\ta+\t*", "L\ta\t-\ta\t+\t*\tID:H:0A"],
    # over-long records: JSON nested deeper than the interpreter's recursion limit
    ["S\ta\t*\txx:J:" + "[" * 30000 + "]" * 30000],
    ["H\txx:J:" + '{"a":' * 20000 + "1" + "}" * 20000],
    ["S\ta\t4\t*\txx:Z:" + "z" * 50000],
]


def gen(streams, tier, i):
    cfg = streams.get("config")
    k = G.swarm_knobs(cfg)
    fr = streams.get("faults")
    ops = []
    vlevel = cfg.choice([0, 1, 1, 2, 3])
    if cfg.random() < 0.15:
        lines = list(cfg.choice(SPECIAL_DOCS))
        if cfg.random() < 0.5:
            cfg.shuffle(lines)
        version = cfg.choice([None, None, "gfa1", "gfa2"])
        docv = "gfa2"
    elif cfg.random() < 0.08:
        # a GFA2 document whose groups are real walks (C17's generator), with every kind of alignment on the
        # edges: the paths of the API that resolve and convert groups are reached
        from . import c17
        lines = list(c17.gen(streams, tier, i)["lines"])
        dr = streams.get("document")
        for j, ln in enumerate(lines):
            f = ln.split("\t")
            if f[0] == "E" and f[8] == "*":
                f[8] = dr.choice(["*", "2M", "1M1I1M", ",".join(str(dr.randint(0, 9)) for _ in range(dr.randint(1, 3)))])
                lines[j] = "\t".join(f)
        version = cfg.choice([None, None, "gfa2"])
        docv = "gfa2"
    else:
        doc = G.gen_doc(streams.get("document"), k)
        lines, _m = hist.schedule(streams.get("schedule"), doc["lines"])
        docv = doc["version"]
        version = cfg.choice([None, None, docv, "gfa1" if docv == "gfa2" else "gfa2"])
    nfault = fr.choice([0, 1, 1, 1, 2, 3])
    faults = []
    for _ in range(nfault):
        if not lines:
            break
        j = fr.randrange(len(lines))
        kind, new = corrupt(fr, lines[j])
        lines[j] = new
        faults.append(kind)
    longname = None
    if fr.random() < 0.03 and docv in ("gfa1", "gfa2"):
        # a (valid) segment name that ends in an asterisk and more digits than int() converts
        longname = fr.choice(["zq", "1", "a*2"]) + "*" + fr.choice(["1", "7", "0"]) * fr.choice([4301, 5000])
        lines.append("S\t%s\t*" % longname if docv == "gfa1" else "S\t%s\t5\t*" % longname)
        faults.append("longname")
    dialect = cfg.choice(["standard"] * 5 + ["rgfa"])
    entry = cfg.choice(["str", "str_nl", "list", "file_lf", "file_crlf", "file_nonl", "file_torn",
                        "incremental", "file_progress", "lines", "script", "file_bytes", "line_lists"])
    ops.append({"op": "build", "entry": entry, "lines": lines, "vlevel": vlevel, "version": version,
                "dialect": dialect, "torn": fr.randint(1, 12)})
    hr = streams.get("history")
    # bad API calls
    for _ in range(hr.randint(0, 8)):
        call = hr.choice(["line", "segment", "try_get_line", "try_get_segment", "rm", "rm",
                          "l.get", "l.set", "l.try_get", "l.delete", "l.field_to_s", "l.validate",
                          "l.validate_field", "l.get_datatype", "l.set_datatype", "str", "gfa.validate",
                          "add", "names", "l.str", "l.clone", "l.rename", "select", "to_other",
                          "components", "linear_paths", "multiply",
                          "seg_component", "cut", "to_obj", "l.to_other", "l.diff", "l.refs", "each.to_other",
                          "l.edit_rm", "l.edit_rm", "select_rt", "l.retype", "l.retype", "l.edge_setter",
                          "grp.edit", "grp.edit", "queries", "queries"])
        # graph rewrites on arbitrary (possibly corrupted) graphs -- merge_linear_paths, remove_dead_ends,
        # remove_small_components, group resolution -- take no string argument and are outside C07's
        # quantifier (texts and strings passed to the API); C14/C16/C17 cover them on their own domains
        arg = hr.choice(WEIRD_STRINGS)
        if hr.random() < 0.35 and lines:
            # an identifier-looking token from the document
            toks = [t for ln in lines for t in ln.replace(" ", "\t").split("\t") if 0 < len(t) < 8]
            if toks:
                arg = hr.choice(toks)
        # the property quantifies over *strings* passed to the API
        val = hr.choice(["x", "", "*", "1", "-1", "1.5", "[]", "[1,2]", "{\"a\":1}", "1$", "+", "12M", "a b",
                         "\t", "c,1,300", "f,1.5,x", "ZZ", "0A", "A+", "A+,B-", "1,2,3", "$", "é"])
        ops.append({"op": "api", "call": call, "arg": arg, "val": val, "li": hr.randrange(50)})
    if longname is not None:
        for call in ("multiply", "seg_component", "rm"):
            ops.append({"op": "api", "call": call, "arg": longname, "val": "x", "li": 1 + 3 * hr.randrange(12)})
    return {"cfg": {"vlevel": vlevel, "version": version, "docv": docv, "entry": entry,
                    "faults": faults, "dialect": dialect}, "ops": ops}


class Ctx:
    def __init__(self, st):
        self.st = st
        self.budget = None

    def call(self, what, fn, *a, **kw):
        """Enter gfapy under the step budget; turn foreign exceptions into violations."""
        b = self.budget
        if b is not None:
            b.n = 0
            b.tripped = False
        try:
            out = core.call(fn, *a, **kw)
        except core.BudgetExceeded:
            raise core.Violation("no-termination", "%s exceeded the budget of %d line events" % (what, BUDGET),
                                 call=re.split(r"[ (]", what)[0])
        self.st.count("outcome." + out.kind)
        if out.kind == "gfapy":
            self.st.count("probe.gfapy_error")
        if out.kind == "foreign":
            if isinstance(out.exc, OSError):
                self.st.count("probe.oserror_excluded")
                return out
            raise core.Violation("foreign-exception",
                                 "%s raised %s: %s" % (what, out.excname, str(out.exc)[:300]),
                                 call=re.split(r"[ (]", what)[0], exc=out.excname, frame=out.frame)
        return out


class Budget(core.LineBudget):
    def __init__(self, limit):
        core.LineBudget.__init__(self, limit)
        self.tripped = False

    def _cb(self, code, line):
        if not code.co_filename.startswith(core.GFAPY_DIR):
            # only the library's own lines are counted (and, once the budget is exhausted, interrupted: the
            # harness must be able to report it)
            return sys.monitoring.DISABLE
        self.n += 1
        if self.tripped or self.n > self.limit:
            self.tripped = True
            raise core.BudgetExceeded()


def run_script(disk, path):
    """bin/gfapy-validate executed in-process (real script code, SimDisk seam)."""
    script = os.path.join(core.REPO, "bin", "gfapy-validate")
    old_argv, old_err = sys.argv, sys.stderr
    sys.argv = [script, path]
    sys.stderr = io.StringIO()
    install_seams(disk)
    try:
        try:
            runpy.run_path(script, run_name="__main__")
            return 0
        except SystemExit as e:
            return e.code if isinstance(e.code, int) else (0 if e.code is None else 1)
    finally:
        remove_seams()
        sys.argv, sys.stderr = old_argv, old_err


def build(w, cx, op, st):
    entry, lines = op["entry"], op["lines"]
    kw = dict(vlevel=op["vlevel"], version=op["version"], dialect=op["dialect"])
    if entry == "lines":
        # every record as a stand-alone Line
        g = None
        for ln in lines:
            o = cx.call("gfapy.Line(%r)" % ln, gfapy.Line, ln, vlevel=op["vlevel"], version=op["version"])
            if o.ok:
                l = o.value
                cx.call("str(line) %r" % ln, str, l)
                cx.call("line.validate() %r" % ln, l.validate)
                cx.call("repr(line) %r" % ln, repr, l)
                cx.call("line.clone() %r" % ln, l.clone)
                cx.call("line.to_gfa1_s %r" % ln, lambda: l.to_gfa1_s())
                cx.call("line.to_gfa2_s %r" % ln, lambda: l.to_gfa2_s())
        return None
    if entry == "line_lists":
        # every record as a stand-alone Line built from its tab-split list
        for ln in lines:
            o = cx.call("gfapy.Line(%r)" % ln.split("\t"), gfapy.Line, ln.split("\t"), vlevel=op["vlevel"],
                        version=op["version"])
            if o.ok:
                l = o.value
                cx.call("str(line) %r" % ln, str, l)
                cx.call("line.validate() %r" % ln, l.validate)
        return None
    if entry == "file_bytes":
        # a stored byte flipped: the file is no longer valid UTF-8 text
        raw = bytearray(("\n".join(lines) + "\n").encode("utf-8"))
        pos = op.get("torn", 1) * 7 % max(1, len(raw))
        raw[pos] = (0xE9, 0xFF, 0xC3, 0x80)[op.get("torn", 1) % 4]
        st.count("fault.flipped_byte")
        w.disk.write_raw("/sim/t.gfa", bytes(raw))
        w.disk.sync()
        install_seams(w.disk, w.clock)
        try:
            if (op.get("torn", 1) // 4) % 2:
                # the same file read with progress logging on (the file is then opened twice: once to count
                # its lines, once to parse them)
                def with_progress():
                    gg = gfapy.Gfa(**kw)
                    gg.enable_progress_logging(part=0.3, channel=io.StringIO())
                    gg.read_file("/sim/t.gfa")
                    return gg
                st.count("probe.flipped_byte_progress")
                o = cx.call("read_file(<flipped byte at %d>) with progress logging" % pos, with_progress)
            else:
                o = cx.call("Gfa.from_file(<flipped byte at %d>)" % pos, gfapy.Gfa.from_file, "/sim/t.gfa", **kw)
        finally:
            remove_seams()
        return o.value if o.ok else None
    if entry in ("file_torn", "script"):
        text = "\n".join(lines) + "\n"
        if entry == "file_torn" and len(text) > 2:
            text = text[:max(1, len(text) - 1 - op.get("torn", 1))]
            st.count("fault.torn_line")
            st.count("probe.torn_line")
        w.disk.write_raw("/sim/t.gfa", text)
        w.disk.sync()
        if entry == "script":
            st.count("probe.validate_script")
            o = cx.call("bin/gfapy-validate %r" % text, run_script, w.disk, "/sim/t.gfa")
            if o.ok and o.value not in (0, 1):
                raise core.Violation("script-exit", "gfapy-validate exit status %r" % (o.value,), call="script")
            return None
        install_seams(w.disk, w.clock)
        try:
            o = cx.call("Gfa.from_file(%r)" % text, gfapy.Gfa.from_file, "/sim/t.gfa", **kw)
        finally:
            remove_seams()
        return o.value if o.ok else None
    o = cx.call("Gfa(%s, %r, %r)" % (entry, lines, kw), w.construct, entry, lines, **kw)
    # w.construct already wraps in core.call -> unwrap nested outcome
    inner = o.value
    if inner is not None and not inner.ok:
        # re-classify inner outcome
        st.count("outcome." + inner.kind)
        if inner.kind == "gfapy":
            st.count("probe.gfapy_error")
        if inner.kind == "foreign" and not isinstance(inner.exc, OSError):
            raise core.Violation("foreign-exception",
                                 "Gfa(entry=%s, lines=%r, %r) raised %s: %s" %
                                 (entry, lines, kw, inner.excname, str(inner.exc)[:300]),
                                 call="Gfa", exc=inner.excname, frame=inner.frame)
        return None
    return inner.value if inner is not None else None


def _rt(x):
    """record type of a line (a harness-side read: a line made unreadable by an earlier call has none)"""
    try:
        return x.record_type
    except Exception:
        return None


def api(g, cx, op, st):
    c, a, v = op["call"], op["arg"], op["val"]
    lo = cx.call("gfa.lines", lambda: g.lines)
    if not lo.ok:
        return
    lines = lo.value
    l = lines[op["li"] % len(lines)] if lines else None
    what = "%s(%r,%r)" % (c, a, v)
    st.state(digest([c, a, repr(v)]))
    if c == "line":
        o = cx.call("gfa." + what, g.line, a)
    elif c == "segment":
        o = cx.call("gfa." + what, g.segment, a)
    elif c == "try_get_line":
        o = cx.call("gfa." + what, g.try_get_line, a)
    elif c == "try_get_segment":
        o = cx.call("gfa." + what, g.try_get_segment, a)
    elif c == "rm":
        o = cx.call("gfa." + what, g.rm, a)
    elif c == "str":
        o = cx.call("str(gfa)", str, g)
    elif c == "gfa.validate":
        o = cx.call("gfa.validate()", g.validate)
    elif c == "add":
        o = cx.call("gfa.add_line(%r)" % a, g.add_line, a)
    elif c == "names":
        o = cx.call("gfa.names", lambda: (g.names, g.segment_names, g.edge_names, g.path_names))
    elif c == "select":
        o = cx.call("gfa.select", g.select, {"name": a})
    elif c == "select_rt":
        rt = "HSLCPEGFOU#X"[op["li"] % 12]
        o = cx.call("gfa.select({'record_type': %r})" % rt, g.select, {"record_type": rt})
        for x in list(lines)[:3]:
            o = cx.call("gfa.select(line)", g.select, x)
    elif c == "to_other":
        o = cx.call("gfa.to_gfa1_s/to_gfa2_s", lambda: (g.to_gfa1_s(), g.to_gfa2_s()))
    elif c == "components":
        o = cx.call("gfa.connected_components()", g.connected_components)
    elif c == "linear_paths":
        o = cx.call("gfa.linear_paths()", g.linear_paths)
    elif c == "multiply":
        # (only strings: the property quantifies over strings; an unnamed segment is listed under a number)
        sn = core.call(lambda: [x for x in g.segment_names if isinstance(x, str)])
        if sn.ok and sn.value and op["li"] % 3 != 1:
            # (the name of a segment of the document, whatever it looks like)
            a = sn.value[op["li"] % len(sn.value)]
        o = cx.call("gfa.multiply(%r,%d)" % (str(a)[:40], op["li"] % 4), g.multiply, a, op["li"] % 4)
    elif c == "merge":
        o = cx.call("gfa.merge_linear_paths()", g.merge_linear_paths)
    elif c == "remove_small":
        o = cx.call("gfa.remove_small_components(%d)" % (op["li"] % 30), g.remove_small_components, op["li"] % 30)
    elif c == "dead_ends":
        o = cx.call("gfa.remove_dead_ends(%d)" % (op["li"] % 30), g.remove_dead_ends, op["li"] % 30)
    elif c == "seg_component":
        o = cx.call("gfa.segment_connected_component(%r)" % a, g.segment_connected_component, a)
    elif c == "cut":
        o = cx.call("gfa.is_cut_segment(%r)" % a, g.is_cut_segment, a)
    elif c == "to_obj":
        o = cx.call("gfa.to_gfa1()/to_gfa2()", lambda: (str(g.to_gfa1()), str(g.to_gfa2())))
    elif c == "each.to_other":
        # every line converted on its own (the per-line conversion validates at the line's level)
        o = None
        for x in list(g.lines):
            o = cx.call("line.to_gfa1_s", x.to_gfa1_s)
            o = cx.call("line.to_gfa2_s", x.to_gfa2_s)
        if o is None:
            return
    elif c == "groups":
        def f():
            out = []
            for p in g.paths + g.sets:
                attr = "induced_set" if p.record_type == "U" else "captured_path"
                try:
                    out.append(getattr(p, attr))
                except gfapy.Error:
                    pass
            return out
        o = cx.call("groups.captured_path/induced_set", f)
    elif l is None:
        return
    elif c == "l.get":
        o = cx.call("line." + what, l.get, a)
    elif c == "l.set":
        o = cx.call("line." + what, l.set, a, v)
    elif c == "l.try_get":
        o = cx.call("line." + what, l.try_get, a)
    elif c == "l.delete":
        o = cx.call("line." + what, l.delete, a)
    elif c == "l.field_to_s":
        o = cx.call("line." + what, l.field_to_s, a)
    elif c == "l.validate":
        o = cx.call("line.validate()", l.validate)
    elif c == "l.validate_field":
        o = cx.call("line." + what, l.validate_field, a)
    elif c == "l.get_datatype":
        o = cx.call("line." + what, l.get_datatype, a)
    elif c == "l.set_datatype":
        o = cx.call("line." + what, l.set_datatype, a, v if isinstance(v, str) else "Z")
    elif c == "l.str":
        o = cx.call("str(line)", str, l)
    elif c == "l.clone":
        o = cx.call("line.clone()", l.clone)
        if o.ok:
            # the copy is used like any line: written, validated, compared, given a tag, added to another Gfa
            cpy = o.value
            cx.call("str(clone)", str, cpy)
            cx.call("clone.validate()", cpy.validate)
            cx.call("clone == line", lambda: cpy == l)
            cx.call("clone.set(%r, %r)" % (a, v), cpy.set, a, v)
            cx.call("clone.tagnames", lambda: cpy.tagnames)
            cx.call("Gfa().add_line(clone)", lambda: gfapy.Gfa(version=g.version, vlevel=g.vlevel).add_line(cpy))
    elif c == "l.to_other":
        o = cx.call("line.to_gfa1_s/to_gfa2_s", lambda: (l.to_gfa1_s(), l.to_gfa2_s()))
    elif c == "l.edit_rm":
        # a positional field of the line is given a string (whatever the outcome), then the line, or a segment,
        # is removed: an edit must not leave the registry in a state where removal breaks
        fields = (list(l.positional_fieldnames) or ["name"]) + ["record_type"]
        fn = fields[op["li"] % len(fields)]
        val = v
        if op["li"] % 3 == 0:
            tk = core.call(lambda: sorted(set(t for x in g.lines for t in str(x).replace(" ", "\t").split("\t")
                                              if 0 < len(t) < 8)))
            toks = tk.value if tk.ok else []
            if toks:
                val = toks[op["li"] % len(toks)]
        cx.call("line.set(%r,%r)" % (fn, val), l.set, fn, val)
        segn = [x for x in g.segment_names if isinstance(x, str)]
        if op["li"] % 2 == 0 and segn:
            o = cx.call("gfa.rm(segment) after edit", g.rm, segn[op["li"] % len(segn)])
        else:
            o = cx.call("gfa.rm(line) after edit", g.rm, l)
    elif c == "l.retype":
        # the datatype of a field or tag is changed (documented: the content may become invalid), then the line
        # is read, validated, written, cloned and converted
        names = list(l.positional_fieldnames) + list(l.tagnames) + [a]
        fn = names[op["li"] % len(names)]
        cx.call("line.get(%r)" % fn, l.get, fn)
        cx.call("line.set_datatype(%r,...)" % fn, l.set_datatype, fn, "AifZJHB"[op["li"] % 7])
        cx.call("line.validate() after set_datatype", l.validate)
        cx.call("str(line) after set_datatype", str, l)
        cx.call("line.clone() after set_datatype", l.clone)
        o = cx.call("gfa.validate() after set_datatype", g.validate)
    elif c == "queries":
        # the query methods of segments, edges and the Gfa, given names and instances
        o = None
        sg = cx.call("gfa.segments", lambda: list(g.segments)[:4])
        segs = sg.value if sg.ok else []
        for s in segs:
            for what, fn in (("oriented_relations", lambda: [s.oriented_relations("+", gfapy.OrientedLine(x, "+")) for x in segs]),
                             ("relations_to", lambda: [s.relations_to(x) for x in segs] + [s.relations_to(a)]),
                             ("end_relations", lambda: [s.end_relations("L", gfapy.SegmentEnd(x, "R")) for x in segs]),
                             ("neighbours", lambda: (s.neighbours, s.neighbours_L, s.neighbours_R, s.containers, s.contained)),
                             ("is_cut_segment", lambda: (g.is_cut_segment(s), g.is_cut_segment(s.name))),
                             ("segment_connected_component", lambda: g.segment_connected_component(s.name)),
                             ("coverage", lambda: (s.coverage(), s.try_get_coverage()))):
                o = cx.call("segment." + what, fn)
        for e in [x for x in lines if _rt(x) in ("L", "C", "E")][:4]:
            for what, fn in (("other(name)", lambda: [e.other(x.name) for x in segs] + [e.other(a)]),
                             ("other(instance)", lambda: [e.other(x) for x in segs]),
                             ("is_cut_link", lambda: g.is_cut_link(e)),
                             ("ends", lambda: (e.from_end, e.to_end, e.is_circular(), e.is_circular_same_end())),
                             ("other_end", lambda: [e.other_end(gfapy.SegmentEnd(x, "L"), True) for x in segs]),
                             ("canonical", lambda: (e.is_canonical(), e.canonicize() if e.record_type == "L" else None)
                              if e.record_type in ("L", "C") else None)):
                o = cx.call("edge." + what, fn)
        for what, fn in (("split_connected_components", lambda: [str(x) for x in g.split_connected_components()]),
                         ("connected_components", g.connected_components), ("linear_paths", g.linear_paths),
                         ("linear_path(%r)" % a, lambda: g.linear_path(a)),
                         ("stable_sequence_names", lambda: g.stable_sequence_names),
                         ("SegmentEnd(%r)" % a, lambda: gfapy.SegmentEnd(a)),
                         ("OrientedLine(%r)" % a, lambda: gfapy.OrientedLine(a)),
                         ("merge_linear_path", lambda: g.merge_linear_path([a, v])),
                         ("delete_low_coverage_segments", lambda: g.delete_low_coverage_segments(op["li"] % 7)),
                         ("compute_copy_numbers", lambda: g.compute_copy_numbers(1 + op["li"] % 9)),
                         ("remove_dead_ends", lambda: g.remove_dead_ends(op["li"] % 20)),
                         ("merge_linear_paths", g.merge_linear_paths)):
            o = cx.call("gfa." + what, fn)
        for s in segs[:2]:
            for what, fn in (("dovetails_of_end(%r)" % a, lambda: (s.dovetails_of_end(a), s.gaps_of_end(a), s.neighbours_of_end(a))),
                             ("coverage(unit_length)", lambda: s.coverage(unit_length=op["li"] % 12)),
                             ("to_version_s(%r)" % a, lambda: s.to_version_s(a)),
                             ("to_str", lambda: [x.to_str() for x in list(g.lines)[:6]])):
                o = cx.call("line." + what, fn)
        if o is None:
            return
    elif c == "grp.edit":
        gs = [x for x in lines if _rt(x) in ("O", "U")]
        if not gs:
            return
        gr = gs[op["li"] % len(gs)]
        item = a if gr.record_type == "U" else (a if a[-1:] in "+-" else a + "+-"[op["li"] % 2])
        if gr.record_type == "U":
            cx.call("set.add_item(%r)" % item, gr.add_item, item)
            o = cx.call("set.rm_item(%r)" % v, gr.rm_item, v if op["li"] % 2 else item)
        else:
            cx.call("path.append_item(%r)" % item, gr.append_item, item)
            cx.call("path.prepend_item(%r)" % v, gr.prepend_item, v)
            cx.call("path.rm_first_item()", gr.rm_first_item)
            o = cx.call("path.rm_last_item()", gr.rm_last_item)
        cx.call("gfa.validate() after group edit", g.validate)
        cx.call("str(gfa) after group edit", str, g)
        # every group (the edited one may be nested in others) still answers, or reports a gfapy error
        for x in gs:
            if x.is_connected():
                cx.call("%s after group edit" % ("captured_path" if x.record_type == "O" else "induced_set"),
                        getattr, x, "captured_path" if x.record_type == "O" else "induced_set")
    elif c == "l.edge_setter":
        es = [x for x in lines if _rt(x) in ("E", "L", "C")]
        if not es:
            return
        e = es[op["li"] % len(es)]
        # (attributes that have a setter; assigning to a read-only property is Python's AttributeError by design)
        attr = ("from_segment", "to_segment", "from_orient", "to_orient")[op["li"] % 4]
        cx.call("edge.%s = %r" % (attr, a), setattr, e, attr, a)
        cx.call("str(edge) after setter", str, e)
        o = cx.call("gfa.validate() after edge setter", g.validate)
    elif c == "l.diff":
        o = cx.call("line.diff/==", lambda: (l == lines[0], l.diff(lines[0]) if lines[0].record_type == l.record_type else None))
        other = lines[(op["li"] * 7 + 3) % len(lines)]
        cx.call("line.diff(other line)", l.diff, other)
        cx.call("line.diffscript(other line, %r)" % a, l.diffscript, other, a)
    elif c == "l.refs":
        o = cx.call("line.refstr/all_references", lambda: (l.refstr(), l.all_references if l.record_type != "P" else None))
    elif c == "l.rename":
        def f():
            l.name = a
        o = cx.call("line.name=%r" % a, f)
    else:
        return
    st.count("probe.bad_api_raised" if not o.ok else "probe.bad_api_returned")


def run(scn, st):
    w = World(st)
    cx = Ctx(st)
    g = None
    with Budget(BUDGET) as b:
        cx.budget = b
        st.count("probe.budget_armed")
        for op in scn["ops"]:
            st.step()
            st.count("op." + op["op"])
            if op["op"] == "build":
                g = build(w, cx, op, st)
                if g is not None and scn["cfg"].get("faults"):
                    st.count("probe.corrupt_accepted")
                if g is not None:
                    cx.call("str(gfa)", str, g)
                    cx.call("gfa.validate()", g.validate)
            elif op["op"] == "api" and g is not None:
                api(g, cx, op, st)


def simplify(scn):
    """Shrink the document of the build op line by line."""
    ops = scn["ops"]
    if not ops or ops[0]["op"] != "build":
        return
    lines = ops[0]["lines"]
    for i in range(len(lines)):
        c = dict(scn)
        c["ops"] = [dict(ops[0], lines=lines[:i] + lines[i + 1:])] + ops[1:]
        yield c
    if ops[0]["entry"] not in ("str", "lines", "script", "file_torn", "file_bytes", "line_lists"):
        c = dict(scn)
        c["ops"] = [dict(ops[0], entry="str")] + ops[1:]
        yield c
    # drop tags field by field
    for i, ln in enumerate(lines):
        f = ln.split("\t")
        for j in range(len(f) - 1, 0, -1):
            if gtext.TAG_RE.match(f[j]):
                nl = "\t".join(f[:j] + f[j + 1:])
                c = dict(scn)
                c["ops"] = [dict(ops[0], lines=lines[:i] + [nl] + lines[i + 1:])] + ops[1:]
                yield c
