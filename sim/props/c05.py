"""C05 — mutating a Gfa is equivalent to editing its text (exact removal cascade).

Stepwise refinement against the text model (sim/model.py) over histories of
legal public mutations; comparison at every *settled* step; restart cross-check
(a Gfa parsed afresh from the model's text has the same abstract observation).
"""
import gfapy
from .. import gen as G, hist, core, gtext
from ..model import Doc
from ..world import World
from ..rng import digest
from .. import observe as ob

PROP = "C05"
RUNS = {"quick": 8000, "thorough": 200000}
WALL = {"quick": 280, "thorough": 3500}
RULE = ("one run = valid document + scheduled delivery + history of legal add/rm/disconnect/rename/"
        "tag edits applied to gfapy and to the text model; compared at every settled step; distinct = "
        "distinct model-text digests compared")
PROBES = ["settled_compare", "unsettled_skip", "cascade_ge3", "cascade_transitive", "gap_unmention",
          "rename_mentioned", "forward_reference_add", "restart_crosscheck", "group_merge",
          "fanout2_removal", "readd_removed", "model_unspecified", "anonymise_mentioned",
          "rename_onto_mentioned", "removed_instance_added_again", "rm_through_stale_handle"]


def tag_edit(rng, rec):
    """a legal tag edit for the model record -> op fields (tag, value, vstr, dtype)"""
    existing = [(n, t, v) for n, t, v in rec.tags if n not in ("ID", "LN", "VN", "TS", "SH", "UR")]
    if existing and rng.random() < 0.5:
        n, t, v = rng.choice(existing)
        if rng.random() < 0.4:
            return {"op": "del_tag", "tag": n}
        if t == "i":
            x = rng.randint(-500, 500)
            return {"op": "set_tag", "tag": n, "value": x, "vstr": str(x), "dtype": "i"}
        if t == "Z":
            x = rng.choice(["new", "a b", "x:y", "0"])
            return {"op": "set_tag", "tag": n, "value": x, "vstr": x, "dtype": "Z"}
        if t == "f":
            x = rng.choice([0.25, -3.5, 10.0])
            return {"op": "set_tag", "tag": n, "value": {"__t": "float", "v": x}, "vstr": repr(x), "dtype": "f"}
        return {"op": "del_tag", "tag": n}
    used = set(n for n, t, v in rec.tags)
    cands = [n for n in ("ta", "tb", "tc", "td") if n not in used]
    if not cands:
        return None
    n = rng.choice(cands)
    if rng.random() < 0.5:
        x = rng.randint(-500, 500)
        return {"op": "set_tag", "tag": n, "value": x, "vstr": str(x), "dtype": "i"}
    x = rng.choice(["new", "a b", "x:y", "q"])
    return {"op": "set_tag", "tag": n, "value": x, "vstr": x, "dtype": "Z"}


def gen(streams, tier, i):
    cfg = streams.get("config")
    k = G.swarm_knobs(cfg)
    if cfg.random() < 0.5:
        k["max_seg"] = cfg.choice([2, 3])
        k["max_link"] = 8
        k["max_edge"] = 8
    k["p_link_id"] = cfg.choice([0.0, 0.2])
    doc = G.gen_doc(streams.get("document"), k)
    version = doc["version"]
    sr = streams.get("schedule")
    lines, mode = hist.schedule(sr, doc["lines"])
    vlevel = cfg.choice([0, 1, 1, 2, 3])
    ops = [{"op": "new", "vlevel": vlevel, "version": cfg.choice([None, version])}]
    for ln in lines:
        ops.append({"op": "add", "line": ln, "as": "obj" if sr.random() < 0.1 else "str"})
    ops.append({"op": "flush"})
    m = Doc(version, lines)
    hr = streams.get("history")
    removed_texts = []
    removed_objs = []
    n = hr.randint(2, 10 if tier == "quick" else 24)
    for _ in range(n):
        r = hr.random()
        ns = m.namespace()
        names = sorted(ns)
        anon = [x for x in m.recs if m.name_of(x) is None and x.rt != "#"]
        if r < 0.30 and names:
            nm = hr.choice(names)
            rec = ns[nm][0]
            if rec.rt in ("L", "C"):
                op = {"op": "rm", "text": rec.render(), "how": hr.choice(["rm_obj", "disconnect"])}
            else:
                op = {"op": "rm", "id": nm, "how": hr.choice(["rm", "rm_obj", "disconnect"])}
            if rec.rt in ("P", "O"):
                removed_objs.append((sum(1 for o_ in ops if o_["op"] == "rm"), rec.render()))
            for x in m.remove([rec]):
                removed_texts.append(x.render())
            ops.append(op)
        elif r < 0.33 and removed_objs:
            # the very object that was removed (a path, an ordered group) is added again, after whatever happened
            # in between: it still is the line it was when it was removed
            k_, t = hr.choice(removed_objs)
            if m.copy().add_text(t) in ("ok",):
                m.add_text(t)
                ops.append({"op": "readd_obj", "rmidx": k_, "text": t})
                removed_objs.remove((k_, t))
        elif r < 0.42 and anon:
            rec = hr.choice(anon)
            ops.append({"op": "rm", "text": rec.render(), "how": hr.choice(["rm_obj", "disconnect"])})
            for x in m.remove([rec]):
                removed_texts.append(x.render())
        elif r < 0.57 and names:
            nm = hr.choice(names)
            if ns[nm][0].rt in ("L", "C"):
                continue
            sh = hist.Shadow(version, m.render())
            sh.reserved = set(m.all_mentions())
            new = sh.fresh(hr)
            m.rename(nm, new)
            ops.append({"op": "rename", "id": nm, "new": new})
        elif r < 0.585 and sorted(m.dangling()) and names:
            # a line is renamed to an identifier that other lines mention and nothing defines: refused, or the
            # mentions refer to it from now on (as in the text, where it then is the definition)
            tgt = [x for x in names if ns[x][0].rt == "S"]
            und = sorted(m.dangling())
            if tgt and und:
                ops.append({"op": "rename", "id": hr.choice(tgt), "new": hr.choice(und), "expect": "either"})
        elif r < 0.60 and version == "gfa2":
            # a line that a group mentions cannot lose its identifier: the mention could not be written any more
            ment = sorted(x for x in names if ns[x][0].rt in ("E", "G", "O", "U")
                          and any(x in m.item_mentions(q) for q in m.recs if q.rt in ("O", "U")))
            if ment:
                ops.append({"op": "rename", "id": hr.choice(ment), "new": "*", "expect": "refused"})
        elif r < 0.72:
            cands = [x for x in m.recs if x.rt not in ("#",)]
            if not cands:
                continue
            rec = hr.choice(cands)
            te = tag_edit(hr, rec)
            if te is None:
                continue
            nm = m.name_of(rec)
            if nm is not None and rec.rt not in ("L", "C"):
                te["id"] = nm
            else:
                te["text"] = rec.render()
            if te["op"] == "set_tag":
                m.set_tag(rec, te["tag"], te["dtype"], te["vstr"])
            else:
                m.del_tag(rec, te["tag"])
            ops.append(te)
        elif r < 0.80 and removed_texts:
            t = hr.choice(removed_texts)
            mm = m.copy()
            if mm.add_text(t) in ("ok", "merged"):
                m.add_text(t)
                ops.append({"op": "add", "line": t, "as": hr.choice(["str", "obj"]), "readd": 1})
                nrm = sum(1 for o_ in ops if o_["op"] == "rm")
                if nrm and hr.random() < 0.3:
                    # the caller still holds the object of an earlier removal and hands it to rm(): it is no line
                    # of the Gfa (whatever carries its name now), the call is refused
                    ops.append({"op": "rm_stale", "rmidx": hr.randrange(nrm)})
        else:
            sh = hist.Shadow(version, m.render())
            sh.reserved = set(m.all_mentions())
            ln = hist.extra_line(hr, sh, dict(k, p_tags=0.3))
            mm = m.copy()
            res = mm.add_text(ln)
            if res in ("ok", "merged", "dup-complement"):
                if ln.startswith("P\t") and mm.dangling() and hr.random() < 0.8:
                    continue
                m.add_text(ln)
                ops.append({"op": "add", "line": ln, "as": hr.choice(["str", "str", "obj"])})
    return {"cfg": {"version": version, "order": mode, "vlevel": vlevel}, "ops": ops}


def model_apply(m, op, st):
    """Apply an op to the model. Returns expectation: 'ok' | 'skip' | 'any'."""
    k = op["op"]
    if k in ("new", "flush"):
        return "ok"
    if k == "add":
        if op.get("readd"):
            st.count("probe.readd_removed")
        pre_dangling = m.dangling()
        res = m.add_text(op["line"])
        if res == "merged":
            st.count("probe.group_merge")
        if res in ("ok", "merged", "dup-complement"):
            if m.dangling() - pre_dangling:
                st.count("probe.forward_reference_add")
            return "ok"
        m.unspecified = "illegal add in history (%s)" % (res,)
        return "any"
    if k == "rm":
        rec = m.by_name(op["id"]) if "id" in op else m.find(op["text"])
        if rec is None:
            return "skip"
        removed, unm = m.cascade([rec])
        if len(removed) >= 3:
            st.count("probe.cascade_ge3")
        tname = m.name_of(rec)
        for q in removed:
            # a record removed although it does not mention the target itself: second level of the cascade
            if q is not rec and not (rec.rt == "L" and q.rt == "P") and (tname is None or tname not in m.mentions(q)):
                st.count("probe.cascade_transitive")
                break
        if unm:
            st.count("probe.gap_unmention")
        m.remove([rec])
        return "ok"
    if k == "rename":
        rec = m.by_name(op["id"])
        if rec is None:
            return "skip"
        if op["new"] in m.namespace() or op["new"] == "*" or op["new"] in m.all_mentions():
            m.unspecified = "illegal rename in history"
            return "any"
        if any(op["id"] in m.mentions(q) for q in m.recs):
            st.count("probe.rename_mentioned")
        m.rename(op["id"], op["new"])
        return "ok"
    if k == "rm_stale":
        return "any"
    if k == "readd_obj":
        if m.add_text(op["text"]) != "ok":
            m.unspecified = "removed line cannot be added again"
            return "any"
        return "ok"
    if k == "reshape_edge":
        rec = m.by_name(op["id"])
        if rec is None or rec.rt != "E":
            return "skip"
        m.remove([rec])
        if m.add_text(op["line"]) != "ok":
            m.unspecified = "model refuses the edited edge"
            return "any"
        st.count("probe.edge_reshaped")
        return "ok"
    if k in ("set_tag", "del_tag"):
        rec = m.by_name(op["id"]) if "id" in op else m.find(op["text"])
        if rec is None:
            return "skip"
        if k == "set_tag":
            m.set_tag(rec, op["tag"], op.get("dtype"), op["vstr"])
        else:
            m.del_tag(rec, op["tag"])
        return "ok"
    return "any"


def compare(w, m, st, n, op):
    g = w.gfa
    v = m.version
    got = gtext.canon_doc(ob.text_lines(g), v)
    want = m.canon()
    st.count("oracle.text_equals_model")
    if got != want:
        extra = [x for x in got if x not in want]
        missing = [x for x in want if x not in got]
        raise core.Violation("text-differs-from-model",
                             "after step %d %r: gfapy has extra %r, lacks %r" % (n, op, extra[:4], missing[:4]),
                             op=op["op"], what=("extra" if extra else "") + ("missing" if missing else ""),
                             rts=sorted(set(x.split("\t")[0] for x in (extra + missing)))[:4])
    names = sorted(x for x in g.names if isinstance(x, str))
    mn = sorted(m.namespace())
    st.count("oracle.names_equal_model")
    if names != mn:
        raise core.Violation("names-differ-from-model",
                             "after step %d %r: gfa.names=%r model=%r" % (n, op, names, mn), op=op["op"])
    virt = [ob.line_text(l) for l in ob.reachable_lines(g) if l.virtual]
    if virt:
        raise core.Violation("placeholder-left",
                             "after step %d %r: settled document but placeholders remain: %r" % (n, op, virt[:3]),
                             op=op["op"])


def run(scn, st):
    w = World(st)
    m = None
    version = scn["cfg"]["version"]
    nsteps = 0
    for n, op in enumerate(scn["ops"]):
        if op["op"] == "new":
            w.apply(op)
            m = Doc(version)
            continue
        if w.gfa is None:
            continue
        if m.unspecified:
            st.count("probe.model_unspecified")
            return
        if op["op"] == "rm":
            t = w._target(op)
            if t is not None and t.record_type == "S":
                for c in ob.SEG_COLLS:
                    if len(getattr(t, c)) >= 2:
                        st.count("probe.fanout2_removal")
                        break
        if op["op"] == "rm_stale":
            out = w.apply(op)
            if out.ok and out.value == "skipped":
                continue
            st.count("probe.rm_through_stale_handle")
            st.count("oracle.illegal_step_refused")
            if out.ok:
                raise core.Violation("illegal-step-accepted", "step %d: rm() was given the object of a line removed earlier "
                                     "(not a line of the Gfa any more) and returned" % n, op="rm_stale")
            if m.settled() and w.gfa.version == version:
                compare(w, m, st, n, op)
            continue
        if op["op"] == "readd_obj":
            if m.copy().add_text(op["text"]) != "ok":
                continue
            out = w.apply(op)
            if out.ok and out.value == "skipped":
                continue
            m.add_text(op["text"])
            st.count("probe.removed_instance_added_again")
            if not out.ok:
                raise core.Violation("legal-step-rejected", "step %d: the removed line %r, added again as the same "
                                     "object, raised %s: %s" % (n, op["text"], out.excname, str(out.exc)[:200]),
                                     op="readd_obj", exc=out.excname, frame=out.frame)
            if m.settled() and w.gfa.version == version:
                compare(w, m, st, n, op)
                restart_check(w, m, st, n, op)
            continue
        if op.get("expect") == "either":
            rec = m.by_name(op["id"])
            if rec is None or op["new"] in m.namespace() or op["new"] not in m.dangling():
                continue
            out = w.apply(op)
            st.count("probe.rename_onto_mentioned")
            if out.ok:
                m.rename(op["id"], op["new"])
                st.count("probe.rename_onto_mentioned_accepted")
            if m.settled() and w.gfa.version == version:
                compare(w, m, st, n, op)
                restart_check(w, m, st, n, op)
            else:
                # whatever the answer was, a later removal shows whether the mentions follow the line
                pass
            continue
        if op.get("expect") == "refused":
            rec = m.by_name(op["id"])
            if rec is None or not any(op["id"] in m.item_mentions(q) for q in m.recs if q.rt in ("O", "U")):
                continue
            out = w.apply(op)
            st.count("probe.anonymise_mentioned")
            st.count("oracle.illegal_step_refused")
            if out.ok:
                raise core.Violation("illegal-step-accepted",
                                     "step %d: %r (%s) is mentioned by a group; renaming it to '*' was accepted: the "
                                     "mention cannot be written" % (n, op["id"], rec.rt), op="rename", rt=rec.rt)
            if m.settled() and w.gfa.version == version:
                compare(w, m, st, n, op)
            continue
        exp = model_apply(m, op, st)
        if exp == "skip":
            # target absent in the model: the op is void (can happen in shrunk histories)
            if ("id" in op and w.gfa.line(op["id"]) is None) or ("text" in op and w._target(op) is None):
                continue
            m.unspecified = "model lacks a target gfapy has"
            return
        out = w.apply(op)
        st.count("outcome." + out.kind)
        if m.unspecified:
            st.count("probe.model_unspecified")
            return
        if exp == "ok" and not out.ok:
            raise core.Violation("legal-step-rejected",
                                 "step %d %r is legal in the text model but raised %s: %s" %
                                 (n, op, out.excname, str(out.exc)[:200]),
                                 op=op["op"], exc=out.excname, frame=out.frame)
        if w.gfa.version != version:
            if w.gfa.version is None:
                continue
        if m.settled() and w.gfa.version == version:
            st.count("probe.settled_compare")
            compare(w, m, st, n, op)
            st.state(digest(m.canon()))
            nsteps += 1
            if nsteps % 4 == 0 or n == len(scn["ops"]) - 1:
                restart_check(w, m, st, n, op)
        else:
            st.count("probe.unsettled_skip")


def positions_consistent(m):
    """GFA2: every position of an E/F line agrees with the length of its segment ('$' exactly on the last
    position). A history that adds an edge whose positions contradict a segment's length is not a history of
    legal steps (the quantifier of C05); gfapy notices it only in Gfa.validate() (C04's business)."""
    if m.version != "gfa2":
        return True
    slen = {}
    for r in m.recs:
        if r.rt == "S":
            try:
                slen[r.pos[0]] = int(r.pos[1])
            except ValueError:
                return False
    for r in m.recs:
        if r.rt == "E":
            trip = [(r.pos[1][:-1], r.pos[3:5]), (r.pos[2][:-1], r.pos[5:7])]
        elif r.rt == "F":
            trip = [(r.pos[0], r.pos[2:4])]
        else:
            continue
        for sid, pp in trip:
            if sid not in slen:
                continue
            for p in pp:
                try:
                    v = int(p.rstrip("$"))
                except ValueError:
                    return False
                if (p.endswith("$")) != (v == slen[sid]) or v > slen[sid]:
                    return False
    return True


def restart_check(w, m, st, n, op):
    """A Gfa parsed afresh from the text the history denotes has the same observation."""
    if not positions_consistent(m):
        st.count("probe.restart_skipped_inconsistent_positions")
        return
    text = "\n".join(m.render())
    o = core.call(gfapy.Gfa, text, vlevel=w.gfa.vlevel, version=m.version)
    st.count("probe.restart_crosscheck")
    if not o.ok:
        raise core.Violation("model-text-rejected",
                             "after step %d: the text the history denotes does not parse: %s: %s" %
                             (n, o.excname, str(o.exc)[:200]), op=op["op"], exc=o.excname, frame=o.frame)
    a = ob.abstract(w.gfa)
    b = ob.abstract(o.value)
    if m.version == "gfa1":
        # which of several compatible links a path is bound to is arrival-order dependent and
        # unspecified: drop the link-resolution part of the comparison for such documents
        for q in m.recs:
            if q.rt == "P" and any(len(m.find_links(*lk)) > 1 for lk in m.path_links(q)):
                st.count("probe.ambiguous_path_skipped")
                for d in (a, b):
                    d["paths"] = {}
                    d["others"] = {}
                break
    st.count("oracle.restart_equal")
    if a != b:
        diff = []
        for key in a:
            if a[key] != b[key]:
                diff.append(key)
        detail = ""
        for key in diff[:1]:
            if isinstance(a[key], dict):
                for kk in sorted(set(a[key]) | set(b[key])):
                    if a[key].get(kk) != b[key].get(kk):
                        detail = "%s[%s]: mutated=%r fresh=%r" % (key, kk, a[key].get(kk), b[key].get(kk))
                        break
            else:
                detail = "%s: mutated=%r fresh=%r" % (key, a[key], b[key])
        raise core.Violation("differs-from-fresh-parse",
                             "after step %d %r: mutated Gfa differs from a fresh parse of the same text in %r: %s" %
                             (n, op, diff, detail[:600]), op=op["op"], what=",".join(diff))


from .c02 import simplify  # noqa: E402,F401
