"""Random (model-free) history generation: delivery schedules and mutation ops.

Used by the implementation-only oracles (C02, C07, C09 registry, C10). The
shadow below only tracks which identifiers / anonymous texts *probably* exist,
to aim operations; it predicts nothing.
"""
from . import gtext
from .gen import gen_tags, gen_cigar, rand_seq, pos_str, interval, INTERVAL_KINDS

FRESH = ["n1", "n2", "n3", "n4", "n5", "n6", "w", "v", "u7", "k8", "99", "100", "A2", "B2"]


class Shadow:
    def __init__(self, version, lines):
        self.version = version
        self.named = {}      # id -> rt
        self.anon = []       # texts of anonymous lines
        self.texts = []      # all non-header, non-comment texts delivered
        self.seglen = {}
        for ln in lines:
            self.note(ln)

    def note(self, ln):
        pl = gtext.tokenize(ln, self.version)
        if pl.rt in ("H", "#"):
            return
        self.texts.append(ln)
        name = None
        if pl.rt in ("S", "P", "E", "G", "O", "U") and pl.pos and pl.pos[0] != "*":
            name = pl.pos[0]
        if pl.rt in ("L", "C"):
            t = pl.tag("ID")
            if t:
                name = t[1]
        if name is not None and pl.rt not in ("L", "C"):
            self.named[name] = pl.rt
        else:
            self.anon.append(ln)
        if pl.rt == "S" and self.version == "gfa2":
            try:
                self.seglen[pl.pos[0]] = int(pl.pos[1])
            except Exception:
                pass

    def ids(self, rts=None):
        return sorted(n for n, rt in self.named.items() if rts is None or rt in rts)

    def fresh(self, rng):
        if not hasattr(self, "reserved"):
            self.reserved = set()
        c = [n for n in FRESH if n not in self.named and n not in self.reserved]
        n = rng.choice(c) if c else "zz%d" % rng.randint(0, 99999)
        self.reserved.add(n)
        return n


def schedule(rng, lines, mode=None):
    """A delivery order of the lines of a document."""
    idx = list(range(len(lines)))
    mode = mode or rng.choice(["given", "shuffle", "reverse", "refs_first", "shuffle", "defs_last"])
    if mode == "shuffle":
        rng.shuffle(idx)
    elif mode == "reverse":
        idx.reverse()
    elif mode in ("refs_first", "defs_last"):
        rank = {"P": 0, "U": 0, "O": 1, "L": 2, "C": 2, "E": 2, "G": 2, "F": 2, "S": 4, "H": 5, "#": 3}
        rng.shuffle(idx)
        idx.sort(key=lambda i: rank.get(lines[i].split("\t")[0][:1], 3))
    return [lines[i] for i in idx], mode


def extra_line(rng, sh, k):
    """A new line to add during a history (may reference fresh identifiers)."""
    segs = sh.ids(["S"])
    def seg():
        if segs and rng.random() < 0.85:
            return rng.choice(segs)
        return sh.fresh(rng)
    tags = gen_tags(rng, k)
    if sh.version == "gfa1":
        kind = rng.choice(["S", "L", "L", "C", "P"])
        if kind == "S":
            return "\t".join(["S", sh.fresh(rng), rng.choice(["*", rand_seq(rng, 6)])] + tags)
        if kind == "L":
            return "\t".join(["L", seg(), rng.choice("+-"), seg(), rng.choice("+-"),
                              gen_cigar(rng, rng.choice(["star", "match", "asym"]), 4, 4)] + tags)
        if kind == "C":
            return "\t".join(["C", seg(), rng.choice("+-"), seg(), rng.choice("+-"),
                              str(rng.randint(0, 5)), rng.choice(["*", "3M"])] + tags)
        n = rng.randint(1, 3)
        sl = [seg() + rng.choice("+-") for _ in range(n)]
        return "\t".join(["P", sh.fresh(rng), ",".join(sl), "*"] + tags)
    kind = rng.choice(["S", "E", "E", "G", "F", "O", "U"])
    if kind == "S":
        n = rng.randint(4, 12)
        return "\t".join(["S", sh.fresh(rng), str(n), rng.choice(["*", rand_seq(rng, n)])] + tags)
    if kind in ("E", "G"):
        a, b = seg(), seg()
        nm = sh.fresh(rng) if rng.random() < 0.7 else "*"
        if kind == "G":
            return "\t".join(["G", nm, a + rng.choice("+-"), b + rng.choice("+-"),
                              str(rng.randint(0, 99)), rng.choice(["*", "5"])] + tags)
        la, lb = sh.seglen.get(a, 8), sh.seglen.get(b, 8)
        b1, e1 = interval(rng, rng.choice(INTERVAL_KINDS), la)
        b2, e2 = interval(rng, rng.choice(INTERVAL_KINDS), lb)
        return "\t".join(["E", nm, a + rng.choice("+-"), b + rng.choice("+-"), pos_str(b1, la),
                          pos_str(e1, la), pos_str(b2, lb), pos_str(e2, lb), "*"] + tags)
    if kind == "F":
        a = seg()
        la = sh.seglen.get(a, 8)
        return "\t".join(["F", a, "rd" + rng.choice("+-"), "0", pos_str(la, la), "0", "8$", "*"] + tags)
    pool = sh.ids() or [sh.fresh(rng)]
    n = rng.randint(1, 3)
    if kind == "O":
        pool = sh.ids(["S", "E", "O"]) or [sh.fresh(rng)]
        items = [(rng.choice(pool) if rng.random() < 0.85 else sh.fresh(rng)) + rng.choice("+-")
                 for _ in range(n)]
        nm = rng.choice(sh.ids(["O"]) + [sh.fresh(rng)] * 3) if rng.random() < 0.9 else "*"
        items = [it for it in items if it[:-1] != nm] or [sh.fresh(rng) + "+"]
        return "\t".join(["O", nm, " ".join(items)] + tags)
    items = [(rng.choice(pool) if rng.random() < 0.85 else sh.fresh(rng)) for _ in range(n)]
    nm = rng.choice(sh.ids(["U"]) + [sh.fresh(rng)] * 3) if rng.random() < 0.9 else "*"
    items = [it for it in items if it != nm] or [sh.fresh(rng)]
    return "\t".join(["U", nm, " ".join(items)] + tags)


def mutation_ops(rng, sh, n, k, p_bad=0.0, removed_texts=None):
    """n random mutation ops aimed with the shadow."""
    ops = []
    removed_texts = removed_texts if removed_texts is not None else []
    for _ in range(n):
        r = rng.random()
        ids = sh.ids()
        if r < 0.30 and ids:
            nm = rng.choice(ids)
            how = rng.choice(["rm", "rm", "disconnect", "rm_obj"])
            ops.append({"op": "rm", "id": nm, "how": how})
            rt = sh.named.pop(nm, None)
            for t in sh.texts:
                pl = gtext.tokenize(t, sh.version)
                if pl.rt == rt and pl.pos and pl.pos[0] == nm:
                    removed_texts.append(t)
        elif r < 0.42 and sh.anon:
            t = rng.choice(sh.anon)
            ops.append({"op": "rm", "text": t, "how": rng.choice(["rm_obj", "disconnect"])})
            removed_texts.append(t)
        elif r < 0.57 and ids:
            nm = rng.choice(ids)
            if rng.random() < p_bad:
                # '*' only for record types whose identifier is optional (E,G,O,U)
                new = rng.choice(ids + (["*"] if sh.named.get(nm) in ("E", "G", "O", "U") else []))
            else:
                new = sh.fresh(rng)
            ops.append({"op": "rename", "id": nm, "new": new})
            if new not in sh.named and new != "*":
                sh.named[new] = sh.named.pop(nm)
        elif r < 0.65 and removed_texts:
            t = rng.choice(removed_texts)
            ops.append({"op": "add", "line": t, "as": rng.choice(["str", "obj"])})
            sh.note(t)
        elif r < 0.70 and ids and rng.random() < p_bad + 0.3:
            # unknown identifier / placeholder removal
            ops.append({"op": "rm", "id": rng.choice(["nope", "*", "", "q q"]), "how": "rm"})
        else:
            ln = extra_line(rng, sh, k)
            ops.append({"op": "add", "line": ln, "as": rng.choice(["str", "str", "obj"])})
            sh.note(ln)
    return ops
