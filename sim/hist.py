"""Random (model-free) history generation: delivery schedules and mutation ops.

Used by the implementation-only oracles (C02, C07, C09 registry, C10). The
shadow below only tracks which identifiers / anonymous texts *probably* exist,
to aim operations; it predicts nothing.
"""
from . import gtext
from .gen import gen_tags, gen_cigar, rand_seq, pos_str, interval, INTERVAL_KINDS

FRESH = ["n1", "n2", "n3", "n4", "n5", "n6", "w", "v", "u7", "k8", "99", "100", "A2", "B2"]


class Shadow:
    def __init__(self, version, lines):
        self.version = version
        self.named = {}      # id -> rt
        self.anon = []       # texts of anonymous lines
        self.texts = []      # all non-header, non-comment texts delivered
        self.seglen = {}
        for ln in lines:
            self.note(ln)

    def note(self, ln):
        pl = gtext.tokenize(ln, self.version)
        if pl.rt in ("H", "#"):
            return
        self.texts.append(ln)
        name = None
        if pl.rt in ("S", "P", "E", "G", "O", "U") and pl.pos and pl.pos[0] != "*":
            name = pl.pos[0]
        if pl.rt in ("L", "C"):
            t = pl.tag("ID")
            if t:
                name = t[1]
        if name is not None and pl.rt not in ("L", "C"):
            self.named[name] = pl.rt
        else:
            self.anon.append(ln)
        if pl.rt == "S" and self.version == "gfa2":
            try:
                self.seglen[pl.pos[0]] = int(pl.pos[1])
            except Exception:
                pass

    def ids(self, rts=None):
        return sorted(n for n, rt in self.named.items() if rts is None or rt in rts)

    def fresh(self, rng):
        if not hasattr(self, "reserved"):
            self.reserved = set()
        c = [n for n in FRESH if n not in self.named and n not in self.reserved]
        n = rng.choice(c) if c else "zz%d" % rng.randint(0, 99999)
        self.reserved.add(n)
        return n


def schedule(rng, lines, mode=None):
    """A delivery order of the lines of a document."""
    idx = list(range(len(lines)))
    mode = mode or rng.choice(["given", "shuffle", "reverse", "refs_first", "shuffle", "defs_last"])
    if mode == "shuffle":
        rng.shuffle(idx)
    elif mode == "reverse":
        idx.reverse()
    elif mode in ("refs_first", "defs_last"):
        rank = {"P": 0, "U": 0, "O": 1, "L": 2, "C": 2, "E": 2, "G": 2, "F": 2, "S": 4, "H": 5, "#": 3}
        rng.shuffle(idx)
        idx.sort(key=lambda i: rank.get(lines[i].split("\t")[0][:1], 3))
    return [lines[i] for i in idx], mode


def extra_line(rng, sh, k):
    """A new line to add during a history (may reference fresh identifiers)."""
    segs = sh.ids(["S"])
    def seg():
        if segs and rng.random() < 0.85:
            return rng.choice(segs)
        return sh.fresh(rng)
    tags = gen_tags(rng, k)
    if sh.version == "gfa1":
        kind = rng.choice(["S", "L", "L", "C", "P"])
        if kind == "S":
            return "\t".join(["S", sh.fresh(rng), rng.choice(["*", rand_seq(rng, 6)])] + tags)
        if kind == "L":
            return "\t".join(["L", seg(), rng.choice("+-"), seg(), rng.choice("+-"),
                              gen_cigar(rng, rng.choice(["star", "match", "asym"]), 4, 4)] + tags)
        if kind == "C":
            return "\t".join(["C", seg(), rng.choice("+-"), seg(), rng.choice("+-"),
                              str(rng.randint(0, 5)), rng.choice(["*", "3M"])] + tags)
        n = rng.randint(1, 3)
        sl = [seg() + rng.choice("+-") for _ in range(n)]
        return "\t".join(["P", sh.fresh(rng), ",".join(sl), "*"] + tags)
    kind = rng.choice(["S", "E", "E", "G", "F", "O", "U"])
    if kind == "S":
        n = rng.randint(4, 12)
        return "\t".join(["S", sh.fresh(rng), str(n), rng.choice(["*", rand_seq(rng, n)])] + tags)
    if kind in ("E", "G"):
        a, b = seg(), seg()
        nm = sh.fresh(rng) if rng.random() < 0.7 else "*"
        if kind == "G":
            return "\t".join(["G", nm, a + rng.choice("+-"), b + rng.choice("+-"),
                              str(rng.randint(0, 99)), rng.choice(["*", "5"])] + tags)
        la, lb = sh.seglen.get(a, 8), sh.seglen.get(b, 8)
        b1, e1 = interval(rng, rng.choice(INTERVAL_KINDS), la)
        b2, e2 = interval(rng, rng.choice(INTERVAL_KINDS), lb)
        return "\t".join(["E", nm, a + rng.choice("+-"), b + rng.choice("+-"), pos_str(b1, la),
                          pos_str(e1, la), pos_str(b2, lb), pos_str(e2, lb), "*"] + tags)
    if kind == "F":
        a = seg()
        la = sh.seglen.get(a, 8)
        return "\t".join(["F", a, "rd" + rng.choice("+-"), "0", pos_str(la, la), "0", "8$", "*"] + tags)
    pool = sh.ids() or [sh.fresh(rng)]
    n = rng.randint(1, 3)
    if kind == "O":
        # (gfapy also lets an ordered group list gaps and, although the specification does not, unordered groups)
        pool = sh.ids(["S", "E", "O"] + (["G", "U"] if rng.random() < 0.2 else [])) or [sh.fresh(rng)]
        items = [(rng.choice(pool) if rng.random() < 0.85 else sh.fresh(rng)) + rng.choice("+-")
                 for _ in range(n)]
        nm = rng.choice(sh.ids(["O"]) + [sh.fresh(rng)] * 3) if rng.random() < 0.9 else "*"
        items = [it for it in items if it[:-1] != nm] or [sh.fresh(rng) + "+"]
        return "\t".join(["O", nm, " ".join(items)] + tags)
    items = [(rng.choice(pool) if rng.random() < 0.85 else sh.fresh(rng)) for _ in range(n)]
    nm = rng.choice(sh.ids(["U"]) + [sh.fresh(rng)] * 3) if rng.random() < 0.9 else "*"
    items = [it for it in items if it != nm] or [sh.fresh(rng)]
    return "\t".join(["U", nm, " ".join(items)] + tags)


def mutation_ops(rng, sh, n, k, p_bad=0.0, removed_texts=None):
    """n random mutation ops aimed with the shadow."""
    ops = []
    removed_texts = removed_texts if removed_texts is not None else []
    for _ in range(n):
        r = rng.random()
        ids = sh.ids()
        if r < 0.30 and ids:
            nm = rng.choice(ids)
            how = rng.choice(["rm", "rm", "disconnect", "rm_obj"])
            ops.append({"op": "rm", "id": nm, "how": how})
            rt = sh.named.pop(nm, None)
            for t in sh.texts:
                pl = gtext.tokenize(t, sh.version)
                if pl.rt == rt and pl.pos and pl.pos[0] == nm:
                    removed_texts.append(t)
        elif r < 0.42 and sh.anon:
            t = rng.choice(sh.anon)
            ops.append({"op": "rm", "text": t, "how": rng.choice(["rm_obj", "disconnect"])})
            removed_texts.append(t)
        elif r < 0.57 and ids:
            nm = rng.choice(ids)
            if rng.random() < p_bad:
                # '*' only for record types whose identifier is optional (E,G,O,U)
                # (a line mentioned by a group cannot become anonymous: the mention could not be written any more)
                mentioned = any(t.split("\t")[0] in ("O", "U") and nm in [x.rstrip("+-") for x in t.split("\t")[2].split(" ")]
                                for t in sh.texts if len(t.split("\t")) > 2)
                new = rng.choice(ids + (["*"] if (sh.named.get(nm) in ("E", "G", "O", "U") and not mentioned) else []))
            else:
                new = sh.fresh(rng)
            ops.append({"op": "rename", "id": nm, "new": new})
            if new not in sh.named and new != "*":
                sh.named[new] = sh.named.pop(nm)
        elif r < 0.65 and removed_texts:
            t = rng.choice(removed_texts)
            ops.append({"op": "add", "line": t, "as": rng.choice(["str", "obj"])})
            sh.note(t)
        elif r < 0.70 and ids and rng.random() < p_bad + 0.3:
            # unknown identifier / placeholder removal
            ops.append({"op": "rm", "id": rng.choice(["nope", "*", "", "q q"]), "how": "rm"})
        else:
            ln = extra_line(rng, sh, k)
            ops.append({"op": "add", "line": ln, "as": rng.choice(["str", "str", "obj"])})
            sh.note(ln)
    return ops


# ------------------------------------------------------------------ bad calls (§4.3)
def bad_op(rng, sh, k, corrupt_fn=None):
    """-> (kind, [ops]) : a call the catalogue expects to fail (or to be a documented no-op)."""
    kind, ops = _bad_op(rng, sh, k, corrupt_fn)
    return kind, (ops if isinstance(ops, list) else [ops])


def _bad_op(rng, sh, k, corrupt_fn=None):
    ids = sh.ids()
    segs = sh.ids(["S"])
    v = sh.version
    kinds = ["dup_id", "dup_id_other", "other_version", "hdr_vn", "hdr_mixed", "malformed",
             "rename_used", "rm_unknown", "set_ref_field", "bad_tagname", "empty", "blank",
             "dup_link", "grp_clash", "grp_tag_conflict", "readd_connected", "bad_value",
             "ref_clash", "ref_clash", "hdr_multi", "rename_malformed", "del_id", "placeholder_clash",
             "invalid_then_rm", "self_mention", "unknown_then_clash", "hdr_bad_predefined", "header_add",
             "grp_jstring", "unknown_then_malformed", "set_field_none", "stale_handle", "stale_handle",
             "anonymise_mentioned", "grp_edit", "grp_edit", "deep_nest", "refused_new_tag", "queued_then_flush",
             "inplace_ref_line", "inplace_ref_line", "grp_star", "grp_star"]
    kind = rng.choice(kinds)
    tags = gen_tags(rng, k)
    if kind == "refused_new_tag" and ids:
        # a tag is set, deleted (by None), then given a value that is refused at level 3; a legal value of another
        # type follows
        nm = rng.choice(ids)
        tg = rng.choice(["zn", "zm"])
        via = rng.choice(["attr", "attr", "set"])
        return kind, [{"op": "set_tag", "id": nm, "tag": tg, "value": rng.choice([1, 2.5, "abc"])},
                      {"op": "set_tag", "id": nm, "tag": tg, "value": None, "via": via},
                      {"op": "set_tag", "id": nm, "tag": tg, "value": rng.choice(["bad\tvalue", "a\nb", ""]), "via": via},
                      {"op": "set_tag", "id": nm, "tag": tg, "value": rng.choice([5, "ok", [1, 2]]), "via": via}]
    if kind == "queued_then_flush" and v == "gfa1":
        # (only has an effect while the version is undecided) lines queued, one of which will be refused, then
        # the queue is processed by a direct call
        a, b = sh.fresh(rng), sh.fresh(rng)
        return kind, [{"op": "add", "line": "L\t%s\t+\t%s\t+\t*" % (a, b), "as": "str"},
                      {"op": "add", "line": "P\t%s\t%s+,%s+\t*" % (a, a, b), "as": "str"},
                      {"op": "add", "line": "P\t%s\t%s+,%s+\t*" % (sh.fresh(rng), a, b), "as": "str"},
                      {"op": "flush"}]
    if kind == "deep_nest" and v == "gfa2" and ids:
        # groups nested several hundred levels deep over one line, which is then removed: the cascade reaches
        # every level (and does not depend on the interpreter's recursion limit)
        base = rng.choice(ids)
        rt = rng.choice("OU")
        sfx = "+" if rt == "O" else ""
        depth = rng.choice([350, 500])
        pfx = sh.fresh(rng) + "_"
        lines_ = ["%s\t%s0\t%s%s" % (rt, pfx, base, sfx)] + \
                 ["%s\t%s%d\t%s%d%s" % (rt, pfx, j, pfx, j - 1, sfx) for j in range(1, depth)]
        return kind, [{"op": "add_many", "lines": lines_}, {"op": "rm", "id": base, "how": rng.choice(["rm", "disconnect"])},
                      {"op": "rm", "id": pfx + "0", "how": "rm"}]
    if kind == "grp_edit" and v == "gfa2":
        # items added to / removed from a connected group through its methods (known and unknown identifiers,
        # the group itself, lines of classes a group cannot list), then a removal
        grp = sh.ids(["O", "U"])
        if grp:
            nm = rng.choice(grp)
            pool = ids + [sh.fresh(rng), nm, "a b", ""]
            ops_ = []
            for _ in range(rng.randint(1, 3)):
                ops_.append({"op": "grp_edit", "id": nm, "how": rng.choice(["add", "append", "prepend", "rm", "rm_first", "rm_last"]),
                             "item": rng.choice(pool) + rng.choice(["+", "-", ""])})
                if rng.random() < 0.4:
                    # the item as the caller wrote it: a forgotten sign, an oriented line with an invalid orientation
                    # ... an oriented line taken from the items of another group, a line of another Gfa
                    ops_[-1]["raw"] = rng.choice(["str", "oline?", "list", "from_group", "from_group", "foreign_line"])
                    ops_[-1]["item"] = rng.choice(ids + [sh.fresh(rng)])
            if any(o.get("raw") == "from_group" for o in ops_) and rng.random() < 0.7:
                # ... then the group the item object was taken from is removed
                ops_.append({"op": "rm_other_group", "id": nm})
            ops_.append({"op": "rm", "id": rng.choice(grp if rng.random() < 0.4 else ids), "how": rng.choice(["rm", "disconnect"])})
            return kind, ops_
    if kind == "grp_star" and v == "gfa2":
        # a further line of a group that exists already, one of whose items is '*' (after an item that resolves,
        # and a new identifier): refused, and nothing of it stays behind
        grp = sh.ids(["O", "U"])
        if grp:
            nm = rng.choice(grp)
            rt = sh.named[nm]
            sfx = (lambda: rng.choice("+-")) if rt == "O" else (lambda: "")
            first = rng.choice(segs) if segs else sh.fresh(rng)
            return kind, [{"op": "add", "line": "%s\t%s\t%s%s %s%s *%s" % (rt, nm, first, sfx(), sh.fresh(rng), sfx(), sfx()),
                           "as": rng.choice(["str", "obj"])},
                          {"op": "rm", "id": first, "how": "rm"}]
    if kind == "stale_handle":
        # the caller keeps a handle to a line that is replaced afterwards (a placeholder by its definition, the
        # first line of a group by the merged group), then removes / disconnects / renames through the handle
        x = sh.fresh(rng)
        y = rng.choice(segs) if segs else sh.fresh(rng)
        how = rng.choice(["rm", "disconnect", "rename"])
        if v == "gfa2" and rng.random() < 0.5:
            rt = rng.choice("OU")
            sfx = "+" if rt == "O" else ""
            first, second = "%s\t%s\t%s%s" % (rt, x, y, sfx), "%s\t%s\t%s%s" % (rt, x, sh.fresh(rng), sfx)
            sh.note(first)
            if rng.random() < 0.4:
                how = "append_item"      # the replaced object is the caller's again: editing it is not editing the group
            elif rng.random() < 0.4:
                # ... and it can be added again under another name, and removed: the merged group is not concerned
                nn = sh.fresh(rng)
                return kind, [{"op": "add", "line": first, "as": "obj"}, {"op": "hold", "what": "last_obj"},
                              {"op": "add", "line": second, "as": "str"},
                              {"op": "held_call", "how": "rename_add", "new": nn},
                              {"op": "held_call", "how": rng.choice(["rm", "disconnect"]), "new": nn}]
            return kind, [{"op": "add", "line": first, "as": "obj"}, {"op": "hold", "what": "last_obj"},
                          {"op": "add", "line": second, "as": "str"}, {"op": "held_call", "how": how, "new": sh.fresh(rng)}]
        if v == "gfa1":
            ref, dfn = "L\t%s\t+\t%s\t-\t*" % (x, y), "S\t%s\t*" % x
        else:
            ref, dfn = "E\t*\t%s+\t%s-\t0\t1\t0\t1\t*" % (x, y), "S\t%s\t8\t*" % x
        sh.note(ref)
        sh.note(dfn)
        return kind, [{"op": "add", "line": ref, "as": "str"}, {"op": "hold", "id": x},
                      {"op": "add", "line": dfn, "as": "str"}, {"op": "held_call", "how": how, "new": sh.fresh(rng)}]
    if kind == "anonymise_mentioned" and v == "gfa2":
        # a line that groups mention is renamed to '*': refused, or everything stays writable and closed
        cand = [q for q in ids if sh.named[q] in ("E", "G", "O", "U", "S")]
        if cand:
            nm = rng.choice(cand)
            g1 = "U\t%s\t%s" % (sh.fresh(rng), nm)
            sh.note(g1)
            return kind, [{"op": "add", "line": g1, "as": "str"}, {"op": "rename", "id": nm, "new": "*"}]
    if kind == "hdr_bad_predefined":
        # a good tag followed, in the same H line, by a predefined tag with a wrong datatype / an invalid value
        bad = rng.choice(["TS:Z:100", "VN:i:2", 'jj:J:"abc"', "TS:i:x", "VN:Z:9.9", "zq:i:1"])
        return kind, [{"op": "add", "line": "H\tzq:i:7\t" + bad, "as": "str"},
                      {"op": "add", "line": "H\tza:i:1\t" + bad, "as": rng.choice(["str", "obj"])}]
    if kind == "header_add":
        return kind, [{"op": "add", "line": "H\tzh:i:1", "as": "str"},
                      {"op": "header_add", "tag": "zh", "value": rng.choice(["notanumber", "2", 2, 2.5, "a b"]),
                       "dtype": rng.choice([None, None, "Z", "i", "f"])},
                      {"op": "header_add", "tag": rng.choice(["VN", "TS", "zh"]), "value": rng.choice(["x", 5, "1.0"])}]
    if kind == "grp_jstring" and v == "gfa2":
        x = sh.fresh(rng)
        y = rng.choice(segs) if segs else sh.fresh(rng)
        rt = rng.choice("OU")
        sfx = "+" if rt == "O" else ""
        first = "%s\t%s\t%s%s\t%s" % (rt, x, y, sfx, rng.choice(['xx:J:"abc"', "xx:J:1", "xx:H:1a", "xx:B:c,", "xx:f:x"]))
        sh.note(first)
        return kind, [{"op": "add", "line": first, "as": "str"},
                      {"op": "add", "line": "%s\t%s\t%s%s %s%s" % (rt, x, sh.fresh(rng), sfx, sh.fresh(rng), sfx), "as": "str"}]
    if kind == "unknown_then_malformed" and v == "gfa2":
        x, y = sh.fresh(rng), sh.fresh(rng)
        g = "U\t%s\t%s %s" % (sh.fresh(rng), x, y)
        sh.note(g)
        ln = rng.choice(["E\t%s\t%s+\tY Z+\t0\t5\t5\t10$\t*" % (sh.fresh(rng), x),
                         "G\t%s\t%s+\ta b-\t10\t*" % (sh.fresh(rng), x),
                         "E\t%s\t%s+\t%s\t0\t5\t5\t10$\t*" % (sh.fresh(rng), x, y),
                         "G\t%s\t%s+\t%s\t10\t*" % (sh.fresh(rng), x, y),
                         # the mentioned identifier itself defined as a group one of whose items is '*'
                         "O\t%s\t%s+ *+" % (x, rng.choice(segs) if segs else y),
                         "U\t%s\t%s *" % (x, rng.choice(segs) if segs else y),
                         "G\t%s\t%s-\t%s\t*\t*" % (sh.fresh(rng), x, rng.choice(segs) if segs else y),
                         "E\t%s\t%s+\t%s-\tx\t5\t5\t10$\t*" % (y, x, sh.fresh(rng))])
        ops_ = [{"op": "add", "line": g, "as": "str"}, {"op": "add", "line": ln, "as": rng.choice(["str", "obj"])}]
        if ln[0] in "OU" and segs:
            ops_.append({"op": "add", "line": "%s\t%s\t%s%s" % (ln[0], x, rng.choice(segs), "+" if ln[0] == "O" else ""), "as": "str"})
        return kind, ops_
    if kind == "set_field_none" and (sh.anon or ids):
        if v == "gfa1":
            fld = rng.choice(["from_segment", "overlap", "segment_names", "sequence", "name", "pos", "ID"])
        else:
            fld = rng.choice(["external", "sid", "slen", "sequence", "items", "disp", "var", "alignment", "s_beg", "name"])
        tgt = {"text": rng.choice(sh.anon)} if (sh.anon and rng.random() < 0.5) else {"id": rng.choice(ids or ["x"])}
        op = {"op": "set_field", "field": fld, "value": None}
        op.update(tgt)
        return kind, [op, {"op": "rm", "id": rng.choice(segs or ["x"]), "how": "rm"}]
    if kind == "self_mention":
        # a line uses its own identifier to refer to another line; with some probability a group has mentioned
        # the identifier before (so that a placeholder of unknown type carries it)
        x = sh.fresh(rng)
        y = rng.choice(segs) if segs else sh.fresh(rng)
        pre = []
        if v == "gfa1":
            ln = rng.choice(["L\t%s\t+\t%s\t-\t*\tID:Z:%s" % (x, y, x), "C\t%s\t+\t%s\t+\t0\t*\tID:Z:%s" % (y, x, x),
                             "P\t%s\t%s+,%s+\t*" % (x, y, x), "P\t%s\t%s+\t*" % (x, x)])
        else:
            ln = rng.choice(["E\t%s\t%s+\t%s-\t0\t1\t0\t1\t*" % (x, x, y), "E\t%s\t%s+\t%s-\t0\t1\t0\t1\t*" % (x, y, x),
                             "G\t%s\t%s+\t%s-\t10\t*" % (x, x, x), "O\t%s\t%s+ %s+" % (x, y, x), "U\t%s\t%s %s" % (x, x, y),
                             "O\t%s\t%s-" % (x, x)])
            if rng.random() < 0.5:
                g = rng.choice(["O\t%s\t%s+ %s+" % (sh.fresh(rng), y, x), "U\t%s\t%s" % (sh.fresh(rng), x)])
                sh.note(g)
                pre = [{"op": "add", "line": g, "as": "str"}]
        return kind, pre + [{"op": "add", "line": ln, "as": rng.choice(["str", "obj"])}]
    if kind == "unknown_then_clash" and v == "gfa2":
        # a group mentions x (placeholder of unknown type); then a line named x arrives whose later reference
        # clashes with an identifier in use by a non-segment: the replacement of the placeholder fails half-way
        nonseg = [q for q in ids if sh.named[q] != "S"]
        if nonseg:
            x = sh.fresh(rng)
            y = rng.choice(segs) if segs else sh.fresh(rng)
            bad = rng.choice(nonseg)
            g = rng.choice(["O\t%s\t%s+ %s+" % (sh.fresh(rng), y, x), "U\t%s\t%s" % (sh.fresh(rng), x)])
            sh.note(g)
            ln = rng.choice(["E\t%s\t%s+\t%s+\t0\t1\t0\t1\t*" % (x, sh.fresh(rng), bad),
                             "G\t%s\t%s-\t%s+\t10\t*" % (x, sh.fresh(rng), bad),
                             "E\t%s\t%s+\t%s+\t0\t1\t0\t1\t*" % (x, y, bad)])
            return kind, [{"op": "add", "line": g, "as": "str"}, {"op": "add", "line": ln, "as": rng.choice(["str", "obj"])}]
    if kind == "ref_clash":
        # the first reference is an undefined identifier (a placeholder gets created), a later one clashes
        # with an identifier in use by a line which is not a segment: the connection fails half-way
        nonseg = [x for x in ids if sh.named[x] != "S"]
        if nonseg:
            bad = rng.choice(nonseg)
            fresh = sh.fresh(rng)
            if v == "gfa1":
                ln = rng.choice(["L\t%s\t+\t%s\t-\t*" % (fresh, bad), "C\t%s\t+\t%s\t+\t0\t*" % (fresh, bad),
                                 "P\t%s\t%s+,%s+\t*" % (sh.fresh(rng), fresh, bad)])
            else:
                ln = rng.choice(["E\t%s\t%s+\t%s+\t0\t1\t0\t1\t*" % (sh.fresh(rng), fresh, bad),
                                 "G\t%s\t%s-\t%s+\t10\t*" % (sh.fresh(rng), fresh, bad),
                                 "E\t*\t%s+\t%s-\t0\t1\t0\t1\t*" % (fresh, bad)])
            return kind, {"op": "add", "line": ln, "as": rng.choice(["str", "obj"])}
    if kind == "placeholder_clash":
        # an identifier is first mentioned as a (not yet defined) segment, then offered as the name of a line
        # of another record type: the second line must be refused, the placeholder must stay what it is
        x = sh.fresh(rng)
        y = rng.choice(segs) if segs else sh.fresh(rng)
        if v == "gfa1":
            first = rng.choice(["L\t%s\t+\t%s\t-\t*" % (x, y), "C\t%s\t+\t%s\t-\t0\t*" % (y, x)])
            second = rng.choice(["P\t%s\t%s+\t*" % (x, y), "L\t%s\t+\t%s\t+\t9M\tID:Z:%s" % (y, y, x)])
        else:
            first = rng.choice(["E\t*\t%s+\t%s-\t0\t1\t0\t1\t*" % (x, y), "F\t%s\tr+\t0\t1\t0\t1\t*" % x,
                                "G\t*\t%s+\t%s-\t5\t*" % (y, x)])
            second = rng.choice(["G\t%s\t%s+\t%s-\t5\t*" % (x, y, y), "O\t%s\t%s+" % (x, y), "U\t%s\t%s" % (x, y),
                                 "E\t%s\t%s+\t%s-\t0\t1\t0\t1\t*" % (x, y, y)])
        sh.note(first)
        return kind, [{"op": "add", "line": first, "as": "str"}, {"op": "add", "line": second, "as": rng.choice(["str", "obj"])}]
    if kind == "invalid_then_rm" and ids:
        # a line holds an invalid value (accepted below level 3); removing a line it refers to must still work
        holders = [x for x in ids if sh.named[x] in ("O", "U", "E", "G", "P")]
        if holders and segs:
            hname = rng.choice(holders)
            return kind, [{"op": "set_datatype", "id": hname, "tag": "zi", "dtype": rng.choice(["A", "i", "H"])},
                          {"op": "set_tag", "id": hname, "tag": "zi", "value": rng.choice(["[1", "a b", "xyz"])},
                          {"op": "rm", "id": rng.choice(segs + ids), "how": rng.choice(["rm", "disconnect"])}]
    if kind == "hdr_multi":
        t = rng.choice(["zm:i:%d", "zn:Z:v%d"])
        return kind, [{"op": "add", "line": "H\t" + t % 1, "as": "str"}, {"op": "add", "line": "H\t" + t % 2, "as": "str"},
                      {"op": "add", "line": "H\t" + (t % 3) + "\tVN:Z:%s" % rng.choice(["1.0", "2.0", "7"]), "as": "str"},
                      {"op": "add", "line": "H\tTS:i:1\t" + (t % 4) + "\tTS:i:2", "as": "str"}]
    if kind == "rename_malformed" and ids:
        return kind, {"op": "rename", "id": rng.choice(ids), "new": rng.choice(["a b", "x\ty", "", "A+,B", " "])}
    if kind == "del_id" and v == "gfa1":
        tagged = [t for t in sh.anon if "\tID:Z:" in t]
        if tagged:
            return kind, {"op": "del_tag", "text": rng.choice(tagged), "tag": "ID"}
    if kind == "dup_id" and ids:
        nm = rng.choice(ids)
        rt = sh.named[nm]
        return kind, {"op": "add", "line": _line_named(rng, sh, rt, nm, tags), "as": rng.choice(["str", "obj"])}
    if kind == "dup_id_other" and ids:
        nm = rng.choice(ids)
        rts = ["S", "P", "Lid", "Cid"] if v == "gfa1" else ["S", "E", "G", "O", "U"]
        rt = rng.choice([r for r in rts if r != sh.named[nm]])
        return kind, {"op": "add", "line": _line_named(rng, sh, rt, nm, tags), "as": rng.choice(["str", "obj"])}
    if kind == "other_version":
        if v == "gfa1":
            ln = rng.choice(["S\tzz1\t5\t*", "E\t*\tA+\tB-\t0\t1\t0\t1\t*", "G\t*\tA+\tB-\t5\t*",
                             "U\tzz2\tA B", "O\tzz3\tA+ B-", "F\tA\tr+\t0\t1\t0\t1\t*", "X\tcustom"])
        else:
            ln = rng.choice(["S\tzz1\t*", "L\tA\t+\tB\t-\t*", "C\tA\t+\tB\t-\t0\t*", "P\tzz2\tA+,B-\t*"])
        return kind, {"op": "add", "line": ln, "as": rng.choice(["str", "obj"])}
    if kind == "hdr_vn":
        return kind, {"op": "add", "line": "H\tVN:Z:%s" % rng.choice(["1.0", "2.0", "3.0", "x"]), "as": "str"}
    if kind == "hdr_mixed":
        return kind, {"op": "add", "line": "H\tzq:i:5\tVN:Z:%s\tTS:i:%d" %
                      (rng.choice(["1.0", "2.0", "9"]), rng.randint(1, 3)), "as": "str"}
    if kind == "malformed" and sh.texts and corrupt_fn:
        _kk, t = corrupt_fn(rng, rng.choice(sh.texts))
        return kind, {"op": "add", "line": t, "as": "str"}
    if kind == "rename_used" and len(ids) >= 2:
        a, b = rng.sample(ids, 2)
        return kind, {"op": "rename", "id": a, "new": b}
    if kind == "rm_unknown":
        return kind, {"op": "rm", "id": rng.choice(["nope", "*", "", "zz zz"]), "how": "rm"}
    if kind == "set_ref_field" and (sh.anon or ids):
        if v == "gfa1":
            fld = rng.choice(["from_segment", "to_segment", "from_orient", "to_orient", "overlap", "segment_names"])
        else:
            fld = rng.choice(["sid1", "sid2", "beg1", "end1", "items", "sid", "beg2", "external", "external"])
        tgt = {"text": rng.choice(sh.anon)} if (sh.anon and rng.random() < 0.5) else {"id": rng.choice(ids or ["x"])}
        op = {"op": "set_field", "field": fld, "value": rng.choice(["A", "+", "-", "*", "3M", "A+", "0"])}
        op.update(tgt)
        return kind, op
    if kind == "inplace_ref_line" and (sh.anon or ids):
        if v == "gfa1":
            fld = rng.choice(["segment_names", "segment_names", "links"])
        else:
            fld = rng.choice(["sid1", "sid2", "items", "sid", "external", "external"])
        tgt = {"text": rng.choice(sh.anon)} if (sh.anon and rng.random() < 0.5) else {"id": rng.choice(ids or ["x"])}
        op = {"op": "set_field", "field": fld, "inplace": "line", "idx": rng.randint(0, 3),
              "value": rng.choice((segs or ["A"]) + ["zz9", "r9"])}
        op.update(tgt)
        return kind, op
    if kind == "bad_tagname" and (ids or sh.anon):
        op = {"op": "set_tag", "tag": rng.choice(["x", "xyz", "1a", "a-", "", "a b"]), "value": 1}
        op.update({"id": rng.choice(ids)} if ids else {"text": rng.choice(sh.anon)})
        return kind, op
    if kind == "empty":
        return kind, {"op": "add", "line": "", "as": "str"}
    if kind == "blank":
        return kind, {"op": "add", "line": rng.choice([" ", "\t", " \t"]), "as": "str"}
    if kind == "dup_link" and v == "gfa1":
        links = [t for t in sh.anon if t.startswith("L\t")]
        if links:
            return kind, {"op": "add", "line": rng.choice(links), "as": rng.choice(["str", "obj"])}
    if kind == "grp_clash" and v == "gfa2":
        o, u = sh.ids(["O"]), sh.ids(["U"])
        if o and rng.random() < 0.5:
            return kind, {"op": "add", "line": "U\t%s\t%s" % (rng.choice(o), rng.choice(segs or ["q"])), "as": "str"}
        if u:
            return kind, {"op": "add", "line": "O\t%s\t%s+" % (rng.choice(u), rng.choice(segs or ["q"])), "as": "str"}
    if kind == "grp_tag_conflict" and v == "gfa2":
        grp = sh.ids(["O", "U"])
        if grp:
            nm = rng.choice(grp)
            rt = sh.named[nm]
            item = rng.choice(segs or ["q"]) + ("+" if rt == "O" else "")
            return kind, [{"op": "set_tag", "id": nm, "tag": "zc", "value": 1},
                          {"op": "add", "line": "%s\t%s\t%s\tzc:i:2" % (rt, nm, item), "as": "str"}]
    if kind == "readd_connected" and ids:
        return kind, {"op": "readd_connected", "id": rng.choice(ids)}
    if kind == "bad_value" and ids:
        nm = rng.choice(ids)
        tg = rng.choice(["xa", "zz"])
        return kind, [{"op": "set_datatype", "id": nm, "tag": tg, "dtype": rng.choice(["i", "H", "B", "A", "f", "J"])},
                      {"op": "set_tag", "id": nm, "tag": tg, "value": rng.choice(["a b", "zz", "[1", "xy", "1,2"])}]
    return "rm_unknown", {"op": "rm", "id": "nope", "how": "rm"}


def _line_named(rng, sh, rt, nm, tags):
    # (a line never mentions its own identifier)
    segs = [x for x in sh.ids(["S"]) if x != nm] or ["q1"]
    s = lambda: rng.choice(segs)
    if sh.version == "gfa1":
        if rt == "S":
            return "\t".join(["S", nm, "*"] + tags)
        if rt == "P":
            return "\t".join(["P", nm, s() + "+", "*"] + tags)
        if rt in ("L", "Lid"):
            return "\t".join(["L", s(), rng.choice("+-"), s(), rng.choice("+-"), "7M", "ID:Z:" + nm] + tags)
        return "\t".join(["C", s(), "+", s(), "-", "1", "*", "ID:Z:" + nm] + tags)
    if rt == "S":
        return "\t".join(["S", nm, "8", "*"] + tags)
    if rt == "E":
        return "\t".join(["E", nm, s() + "+", s() + "-", "0", "1", "0", "1", "*"] + tags)
    if rt == "G":
        return "\t".join(["G", nm, s() + "+", s() + "-", "10", "*"] + tags)
    if rt == "O":
        return "\t".join(["O", nm, s() + "+"] + tags)
    return "\t".join(["U", nm, s()] + tags)
