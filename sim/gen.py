"""Model-grammar document generators (GFA1 / GFA2), swarm-style knobs.

Everything here is a pure function of the random.Random passed in; no set
iteration, no hashing. Documents are lists of text lines without terminators.
"""
import json
from .gtext import inv, cigar_complement, cigar_reflen, cigar_qlen

ALPHA_NAMES = ["A", "B", "C", "D", "E1", "F", "g", "hh", "s1", "s2", "s3", "x", "y", "z9"]
INT_NAMES = ["1", "2", "3", "7", "12", "40", "5", "9"]
# includes identifiers that look like tags (valid names in both versions)
WEIRD1_NAMES = ["a*2", "b.1", "c_d", "k:1", "m*3", "q!", "r#2", "t~", "c1:a:17", "ab:Z:x"]
WEIRD2_NAMES = ["a*2", "b.1", "c_d", "k:1", "m*3", "q!", "r#2", "t~", "c1:a:17", "ab:Z:x"]

TAG_NAMES = ["xa", "xb", "xc", "ya", "yb", "zz", "aa", "ab", "c1", "d2", "Xq", "Yz"]
TAGTYPES = "AifZJHB"


def smallest_subtype(vals):
    lo, hi = min(vals), max(vals)
    if lo < 0:
        for st, b in (("c", 7), ("s", 15), ("i", 31)):
            if -(2 ** b) <= lo and hi < 2 ** b:
                return st
    else:
        for st, b in (("C", 8), ("S", 16), ("I", 32)):
            if hi < 2 ** b:
                return st
    return None


def tag_value(rng, t, canonical=True):
    if t == "A":
        return rng.choice("abcXYZ!~0*+-")
    if t == "i":
        v = rng.choice([0, 1, -1, 7, 42, 127, 128, -128, -129, 255, 256, 32767, 65536,
                        2 ** 31 - 1, -2 ** 31, 2 ** 32, 10 ** 12, rng.randint(-1000, 1000)])
        if not canonical and rng.random() < 0.5:
            return rng.choice(["+%d" % abs(v), "00%d" % abs(v)])
        return str(v)
    if t == "f":
        v = rng.choice([0.5, -1.25, 3.0, 1e-05, 2.5e+20, 0.0, 123.456, -7.0, 1e+100])
        if not canonical and rng.random() < 0.6:
            return rng.choice(["1e3", "+.5", "3", "-0.50", "2.50E+2", "1E-2", "007.5"])
        return repr(v)
    if t == "Z":
        n = rng.randint(1, 8)
        return "".join(rng.choice("abcXYZ 019:;,.*+-_#/") for _ in range(n))
    if t == "J":
        obj = rng.choice([{"a": 1}, [1, 2, 3], {"k": [1, {"z": None}], "b": "x y"}, [], {},
                          [1.5, "s", True], {"n": {"m": {"l": [0]}}}, ["a b", -3],
                          # strings that are written with escapes (non-ASCII text, quotes, backslashes)
                          {"g\u00e9": "caf\u00e9-1"}, ["\u540d", "a\"b\\c"], {"t": "x\ty\u007f"}])
        if not canonical and rng.random() < 0.6:
            return json.dumps(obj, separators=(",", ":"))
        return json.dumps(obj)
    if t == "H":
        n = rng.randint(1, 4)
        return "".join(rng.choice("0123456789ABCDEF") for _ in range(2 * n))
    if t == "B":
        if rng.random() < 0.3:
            vals = [rng.choice([0.5, -1.25, 3.0, 1e-05, 100.0]) for _ in range(rng.randint(1, 4))]
            return "f," + ",".join(repr(v) for v in vals)
        pool = rng.choice([[0, 1, 255], [0, 256, 65535], [70000, 2 ** 32 - 1], [-1, 127, -128],
                           [-129, 32767], [-40000, 2 ** 31 - 1], [rng.randint(-300, 300) for _ in range(3)],
                           [-1, 128], [-128, 128, 127], [-1, 32768], [-32768, 32768], [-1, 2 ** 31 - 1, 32768]])
        vals = [rng.choice(pool) for _ in range(rng.randint(1, 4))]
        return smallest_subtype(vals) + "," + ",".join(str(v) for v in vals)
    raise AssertionError(t)


def gen_tags(rng, k, exclude=(), force_types=None):
    """Return list of 'xx:t:v' strings, unique names."""
    n = 0
    r = rng.random()
    maxt = k.get("max_tags", 3)
    if maxt <= 0:
        return []
    if r < k.get("p_tags", 0.5):
        n = rng.randint(1, maxt)
    names = [x for x in TAG_NAMES if x not in exclude]
    rng.shuffle(names)
    out = []
    types = force_types or k.get("tagtypes", TAGTYPES)
    for i in range(n):
        t = rng.choice(types)
        out.append("%s:%s:%s" % (names[i], t, tag_value(rng, t, k.get("canonical", True))))
    return out


def rand_seq(rng, n):
    return "".join(rng.choice("ACGT") for _ in range(n))


def pick_names(rng, k, n, weird):
    style = k.get("names", "alpha")
    pool = list(ALPHA_NAMES)
    if style == "int":
        pool = list(INT_NAMES)
    elif style == "mixed":
        pool = ALPHA_NAMES[:6] + INT_NAMES[:4] + weird[:4]
    elif style == "weird":
        pool = list(weird) + ALPHA_NAMES[:4]
    rng.shuffle(pool)
    return pool[:n]


def gen_cigar(rng, style, maxref, maxq, gfa2=False):
    """A CIGAR with reference length <= maxref and query length <= maxq, or '*'."""
    if style == "star" or maxref < 1 or maxq < 1:
        return "*"
    if style == "match":
        return "%dM" % rng.randint(1, min(maxref, maxq, 9))
    codes = "MIDP" if (gfa2 or style == "asym") else ("MIDP=XHSN" if style == "allsn" else "MIDP=XH")
    for _ in range(20):
        n = rng.randint(1, 4)
        ops = []
        last = None
        for _i in range(n):
            c = rng.choice(codes)
            if c == last:
                continue
            last = c
            ops.append("%d%s" % (rng.randint(1, 4), c))
        s = "".join(ops)
        if not s:
            continue
        if cigar_reflen(s) <= maxref and cigar_qlen(s) <= maxq and \
                (cigar_reflen(s) > 0 or cigar_qlen(s) > 0):
            return s
    return "%dM" % min(maxref, maxq, 2)


# =====================================================================  GFA1
def gen_gfa1(rng, k):
    """Generate a valid GFA1 document. Returns dict(lines=[...], meta=...)."""
    nseg = rng.randint(k.get("min_seg", 1), k.get("max_seg", 6))
    names = pick_names(rng, k, nseg + 3, WEIRD1_NAMES)
    segs = names[:nseg]
    spare = names[nseg:]
    lines = []
    seglen = {}
    S = []
    for s in segs:
        tags = []
        if k.get("lens", False) or rng.random() < k.get("p_seq", 0.6):
            n = rng.randint(k.get("min_len", 4), k.get("max_len", 16))
            seglen[s] = n
            if rng.random() < 0.7:
                seq = rand_seq(rng, n)
                if rng.random() < 0.3:
                    tags.append("LN:i:%d" % n)
            else:
                seq = "*"
                tags.append("LN:i:%d" % n)
        else:
            seq = "*"
            seglen[s] = None
        if rng.random() < k.get("p_counts", 0.2):
            tags.append("%s:i:%d" % (rng.choice(["RC", "FC", "KC"]), rng.randint(0, 200)))
        tags += gen_tags(rng, k)
        S.append("\t".join(["S", s, seq] + tags))
    # links
    L = []
    linkkeys = {}   # canonical (from,fo,to,too) -> list of canonical overlaps
    nlink = rng.randint(0, k.get("max_link", 6))
    ostyle = k.get("overlap", "mixed")
    for _ in range(nlink):
        a = rng.choice(segs)
        b = a if rng.random() < k.get("p_self", 0.1) else rng.choice(segs)
        fo, to = rng.choice("+-"), rng.choice("+-")
        st = ostyle if ostyle != "mixed" else rng.choice(["star", "match", "asym", "all"])
        la = seglen[a] if seglen[a] is not None else 9
        lb = seglen[b] if seglen[b] is not None else 9
        if k.get("lens", False) == "full":
            if rng.random() < 0.5:
                # the overlap covers a whole segment (only used by the GFA2-view arm of C06)
                n = min(la, lb)
                ov = "%dM" % n
            else:
                ov = gen_cigar(rng, st, la, lb)
        elif k.get("lens", False):
            la, lb = la - 1, lb - 1
            ov = gen_cigar(rng, st, la, lb)
        else:
            ov = gen_cigar(rng, st, la, lb)
        key_a = (a, fo, b, to)
        key_b = (b, inv(to), a, inv(fo))
        ck = min(key_a, key_b)
        cov = ov if ck == key_a else cigar_complement(ov)
        if key_a == key_b:
            cov = min(ov, cigar_complement(ov))
        prev = linkkeys.get(ck)
        if prev is not None:
            if not k.get("parallel", True):
                continue
            # parallel edges must all have distinct specified overlaps
            if ov == "*" or "*" in prev or cov in prev or cigar_complement(cov) in prev:
                continue
        linkkeys.setdefault(ck, []).append(cov)
        tags = []
        if rng.random() < k.get("p_link_id", 0.15) and spare:
            tags.append("ID:Z:%s" % spare.pop())
        if rng.random() < k.get("p_counts", 0.2):
            tags.append("%s:i:%d" % (rng.choice(["RC", "FC", "KC"]), rng.randint(0, 200)))
        tags += gen_tags(rng, k)
        L.append("\t".join(["L", a, fo, b, to, ov] + tags))
    # containments
    C = []
    for _ in range(rng.randint(0, k.get("max_cont", 2))):
        a, b = rng.choice(segs), rng.choice(segs)
        if a == b and not k.get("self_cont", False):
            continue
        la = seglen[a] if seglen[a] is not None else 9
        lb = seglen[b] if seglen[b] is not None else 9
        if k.get("lens", False):
            # contained must fit: whole b aligned inside a
            if lb > la:
                a, b, la, lb = b, a, lb, la
            if rng.random() < 0.5 and lb >= 3 and la > lb:
                # whole contained segment aligned with insertions / deletions (query length == lb)
                m1 = rng.randint(1, lb - 2)
                ins = rng.randint(0, lb - m1 - 1)
                m2 = lb - m1 - ins
                dele = rng.randint(0, min(2, la - (m1 + m2)))
                ov = "%dM" % m1 + ("%dI" % ins if ins else "") + ("%dD" % dele if dele else "") + "%dM" % m2
                pos = rng.randint(0, la - (m1 + m2 + dele))
            else:
                pos = rng.randint(0, la - lb)
                ov = "%dM" % lb
        else:
            pos = rng.randint(0, 9)
            ov = gen_cigar(rng, rng.choice(["star", "match"]), la, lb)
        tags = []
        if rng.random() < k.get("p_link_id", 0.15) and spare:
            tags.append("ID:Z:%s" % spare.pop())
        if rng.random() < k.get("p_counts", 0.2):
            tags.append("%s:i:%d" % (rng.choice(["RC", "FC", "KC"]), rng.randint(0, 200)))
        tags += gen_tags(rng, k)
        C.append("\t".join(["C", a, rng.choice("+-"), b, rng.choice("+-"), str(pos), ov] + tags))
    # paths: walks over links
    P = []
    adj = {}   # (seg,orient) -> list of ((seg2,orient2), overlap-as-read)
    for ln in L:
        f = ln.split("\t")
        a, fo, b, to, ov = f[1:6]
        adj.setdefault((a, fo), []).append(((b, to), ov))
        adj.setdefault((b, inv(to)), []).append(((a, inv(fo)), cigar_complement(ov)))
    for _ in range(rng.randint(0, k.get("max_path", 2))):
        if not spare:
            break
        cur = (rng.choice(segs), rng.choice("+-"))
        walk = [cur]
        ovs = []
        for _i in range(rng.randint(0, 4)):
            nxt = adj.get(cur)
            if not nxt:
                break
            (n2, ov) = rng.choice(nxt)
            walk.append(n2)
            ovs.append(ov)
            cur = n2
        circular = False
        if len(walk) >= 2 and rng.random() < 0.3:
            # try to close the circle
            for (n2, ov) in adj.get(cur, []):
                if n2 == walk[0]:
                    ovs.append(ov)
                    circular = True
                    break
        pname = spare.pop()
        segstr = ",".join("%s%s" % w for w in walk)
        if len(walk) == 1:
            ovstr = "*"
        elif not circular and rng.random() < 0.3 and _all_unambiguous(walk, adj):
            ovstr = "*"
        else:
            ovstr = ",".join(ovs)
            if _has_ambiguous_star(walk, ovs, adj, circular):
                continue
        P.append("\t".join(["P", pname, segstr, ovstr] + gen_tags(rng, k)))
    H = []
    if rng.random() < k.get("p_vn", 0.3):
        H.append("H\tVN:Z:1.0")
    for _ in range(rng.randint(0, k.get("max_hdr", 2))):
        t = gen_tags(rng, dict(k, p_tags=1.0, max_tags=2))
        if t:
            H.append("\t".join(["H"] + t))
    H = _dedupe_header_tags(H)
    Cm = ["# " + rand_comment(rng) for _ in range(rng.randint(0, k.get("max_comment", 1)))]
    if k.get("p_hairpin_circle", 0) and rng.random() < k["p_hairpin_circle"] and len(spare) >= 2:
        # a segment with a hairpin link on each end (overlaps that differ from their complements) and a
        # circular path over both, each step asking for the link as written or for its complement form:
        # the overlap alone says in which direction such a link is traversed
        hs, hp = spare.pop(), spare.pop()
        ova, ovb = rng.sample(["1I2M", "2M1D", "3M1I", "1D1M", "2I1M1D1M"], 2)
        S.append("S\t%s\t*" % hs)
        segs.append(hs)
        L.append("L\t%s\t-\t%s\t+\t%s" % (hs, hs, ova))
        L.append("L\t%s\t+\t%s\t-\t%s" % (hs, hs, ovb))
        x = ova if rng.random() < 0.5 else cigar_complement(ova)
        y = ovb if rng.random() < 0.5 else cigar_complement(ovb)
        if rng.random() < 0.5:
            P.append("P\t%s\t%s-,%s+\t%s,%s" % (hp, hs, hs, x, y))
        else:
            P.append("P\t%s\t%s+,%s-\t%s,%s" % (hp, hs, hs, y, x))
    lines = H + Cm + S + L + C + P
    return {"version": "gfa1", "lines": lines, "segs": segs, "seglen": seglen}


def rand_comment(rng):
    return "".join(rng.choice("abc xyz 123 .,;") for _ in range(rng.randint(1, 10))).strip() or "c"


def _dedupe_header_tags(H):
    """Header tags repeated across lines must agree in datatype; keep first type."""
    seen = {}
    out = []
    for h in H:
        f = h.split("\t")
        keep = ["H"]
        for tg in f[1:]:
            n, t, v = tg.split(":", 2)
            if n in seen and seen[n] != t:
                continue
            seen[n] = t
            keep.append(tg)
        if len(keep) > 1:
            out.append("\t".join(keep))
    return out


def _all_unambiguous(walk, adj):
    for i in range(len(walk) - 1):
        c = [x for x in adj.get(walk[i], []) if x[0] == walk[i + 1]]
        if len(c) != 1:
            return False
    return True


def _has_ambiguous_star(walk, ovs, adj, circular):
    n = len(walk)
    for i, ov in enumerate(ovs):
        if ov == "*":
            j = (i + 1) % n
            c = [x for x in adj.get(walk[i], []) if x[0] == walk[j]]
            if len(c) != 1:
                return True
    return False


# =====================================================================  GFA2
def pos_str(p, slen):
    return "%d$" % p if p == slen else str(p)


def interval(rng, kind, slen):
    """kind: pfx0 (0..0), pfx (0..x), inner (x..y), sfx (x..L$), sfxe (L$..L$), whole (0..L$)"""
    if kind == "pfx0":
        return 0, 0
    if kind == "pfx":
        return 0, rng.randint(1, max(1, slen - 1))
    if kind == "inner":
        a = rng.randint(1, max(1, slen - 1))
        b = rng.randint(a, max(a, slen - 1))
        return a, b
    if kind == "sfx":
        return rng.randint(1, max(1, slen - 1)), slen
    if kind == "sfxe":
        return slen, slen
    if kind == "whole":
        return 0, slen
    raise AssertionError(kind)


INTERVAL_KINDS = ["pfx0", "pfx", "inner", "sfx", "sfxe", "whole"]


def gen_gfa2(rng, k):
    nseg = rng.randint(k.get("min_seg", 1), k.get("max_seg", 6))
    names = pick_names(rng, k, nseg + 8, WEIRD2_NAMES)
    segs = names[:nseg]
    spare = names[nseg:]
    seglen = {}
    S = []
    for s in segs:
        n = rng.randint(k.get("min_len", 4), k.get("max_len", 16))
        seglen[s] = n
        seq = rand_seq(rng, n) if rng.random() < k.get("p_seq", 0.6) else "*"
        tags = []
        if rng.random() < k.get("p_counts", 0.2):
            tags.append("%s:i:%d" % (rng.choice(["RC", "FC", "KC"]), rng.randint(0, 200)))
        tags += gen_tags(rng, k)
        if k.get("taglike_seq") and seq != "*" and n >= 6 and rng.random() < 0.2:
            # any printable string is a GFA2 sequence, also one that looks like a tag
            seq = rng.choice(["AC:Z:", "NN:A:", "xy:i:"]) + seq[5:]
        if k.get("ln_tag") and rng.random() < 0.2:
            tags.append("LN:i:%d" % rng.randint(0, 50))     # not predefined for GFA2 segments: an ordinary tag
        S.append("\t".join(["S", s, str(n), seq] + tags))
    E = []
    enames = []
    edges_meta = []
    for _ in range(rng.randint(0, k.get("max_edge", 6))):
        a = rng.choice(segs)
        b = a if rng.random() < k.get("p_self", 0.1) else rng.choice(segs)
        o1, o2 = rng.choice("+-"), rng.choice("+-")
        etype = rng.choice(k.get("etypes", ["dovetail", "dovetail", "cont", "internal", "any"]))
        if etype == "dovetail":
            if o1 == o2:
                k1, k2 = rng.choice([("sfx", "pfx"), ("pfx", "sfx")])
            else:
                k1, k2 = rng.choice([("sfx", "sfx"), ("pfx", "pfx")])
        elif etype == "cont":
            if rng.random() < 0.5:
                k1, k2 = "whole", rng.choice(["pfx", "inner", "sfx"])
            else:
                k1, k2 = rng.choice(["pfx", "inner", "sfx"]), "whole"
        elif etype == "internal":
            k1, k2 = "inner", rng.choice(["inner", "pfx", "sfx"])
        else:
            k1, k2 = rng.choice(INTERVAL_KINDS), rng.choice(INTERVAL_KINDS)
        b1, e1 = interval(rng, k1, seglen[a])
        b2, e2 = interval(rng, k2, seglen[b])
        eid = "*"
        if rng.random() < k.get("p_eid", 0.7) and spare:
            eid = spare.pop()
            enames.append(eid)
        astyle = k.get("overlap", "mixed")
        if astyle == "mixed":
            astyle = rng.choice(["star", "match", "asym", "trace"])
        if astyle == "trace":
            aln = ",".join(str(rng.randint(0, 9)) for _ in range(rng.randint(2, 3)))
        elif astyle == "star":
            aln = "*"
        else:
            aln = gen_cigar(rng, astyle, max(1, e1 - b1), max(1, e2 - b2), gfa2=True)
        tags = gen_tags(rng, k)
        E.append("\t".join(["E", eid, a + o1, b + o2, pos_str(b1, seglen[a]), pos_str(e1, seglen[a]),
                            pos_str(b2, seglen[b]), pos_str(e2, seglen[b]), aln] + tags))
        edges_meta.append((eid, a, o1, b, o2, k1, k2))
    G = []
    gnames = []
    for _ in range(rng.randint(0, k.get("max_gap", 2))):
        a, b = rng.choice(segs), rng.choice(segs)
        gid = "*"
        if rng.random() < 0.7 and spare:
            gid = spare.pop()
            gnames.append(gid)
        var = rng.choice(["*", str(rng.randint(0, 50))])
        G.append("\t".join(["G", gid, a + rng.choice("+-"), b + rng.choice("+-"),
                            str(rng.randint(-20, 500)), var] + gen_tags(rng, k)))
    F = []
    for _ in range(rng.randint(0, k.get("max_frag", 2))):
        a = rng.choice(segs)
        sb, se = interval(rng, rng.choice(INTERVAL_KINDS), seglen[a])
        flen = rng.randint(4, 30)
        fb = rng.randint(0, flen)
        fe = rng.randint(fb, flen)
        ext = rng.choice(["read1", "r2", "ext_3"])
        F.append("\t".join(["F", a, ext + rng.choice("+-"), pos_str(sb, seglen[a]), pos_str(se, seglen[a]),
                            str(fb), pos_str(fe, flen) if rng.random() < 0.5 else str(fe),
                            rng.choice(["*", "%dM" % max(1, se - sb)])] + gen_tags(rng, k)))
    O = []
    onames = []
    U = []
    unames = []
    for _ in range(rng.randint(0, k.get("max_ogroup", 2))):
        if not spare:
            break
        pool = segs + enames + (onames if k.get("nest", True) else []) + (gnames if rng.random() < 0.4 else [])
        items = [rng.choice(pool) + rng.choice("+-") for _ in range(rng.randint(1, 4))]
        oid = spare.pop() if rng.random() < 0.85 else "*"
        if oid != "*":
            onames.append(oid)
        O.append("\t".join(["O", oid, " ".join(items)] + gen_tags(rng, k)))
    for _ in range(rng.randint(0, k.get("max_ugroup", 2))):
        if not spare:
            break
        pool = segs + enames + gnames + onames + (unames if k.get("nest", True) else [])
        items = [rng.choice(pool) for _ in range(rng.randint(1, 4))]
        uid = spare.pop() if rng.random() < 0.85 else "*"
        if uid != "*":
            unames.append(uid)
        U.append("\t".join(["U", uid, " ".join(items)] + gen_tags(rng, k)))
    X = []
    for _ in range(rng.randint(0, k.get("max_custom", 1))):
        rt = rng.choice(["X", "Y", "Zz", "LEN", "SEQ", "CTG", "PRG", "EE", "Ox", "HDR", "Gap", "Us", "FF"])
        flds = [rng.choice(["foo", "12", "a b", "x:y", "-"]) for _ in range(rng.randint(0, 3))]
        X.append("\t".join([rt] + flds + gen_tags(rng, k)))
    H = []
    if rng.random() < k.get("p_vn", 0.3):
        H.append("H\tVN:Z:2.0")
    if rng.random() < 0.1:
        H.append("H\tTS:i:%d" % rng.randint(1, 100))
    for _ in range(rng.randint(0, k.get("max_hdr", 2))):
        t = gen_tags(rng, dict(k, p_tags=1.0, max_tags=2))
        if t:
            H.append("\t".join(["H"] + t))
    H = _dedupe_header_tags(H)
    Cm = ["# " + rand_comment(rng) for _ in range(rng.randint(0, k.get("max_comment", 1)))]
    lines = H + Cm + S + E + G + F + O + U + X
    return {"version": "gfa2", "lines": lines, "segs": segs, "seglen": seglen,
            "edges_meta": edges_meta}


def swarm_knobs(rng, version=None):
    """Per-run swarm configuration of the document generator."""
    k = {
        "names": rng.choice(["alpha", "alpha", "int", "mixed", "weird"]),
        "max_seg": rng.choice([2, 3, 4, 6]),
        "max_link": rng.choice([0, 2, 4, 8]),
        "max_edge": rng.choice([0, 2, 4, 8]),
        "max_cont": rng.choice([0, 1, 3]),
        "max_path": rng.choice([0, 1, 3]),
        "max_gap": rng.choice([0, 1, 3]),
        "max_frag": rng.choice([0, 1, 3]),
        "max_ogroup": rng.choice([0, 1, 3]),
        "max_ugroup": rng.choice([0, 1, 3]),
        "max_custom": rng.choice([0, 0, 1, 2]),
        "max_hdr": rng.choice([0, 1, 3]),
        "max_comment": rng.choice([0, 0, 1, 2]),
        "p_self": rng.choice([0.0, 0.1, 0.4]),
        "p_tags": rng.choice([0.0, 0.3, 0.8]),
        "max_tags": rng.choice([1, 2, 4]),
        "p_seq": rng.choice([0.0, 0.5, 1.0]),
        "p_vn": rng.choice([0.0, 0.3, 1.0]),
        "p_link_id": rng.choice([0.0, 0.0, 0.2, 0.5]),
        "p_counts": rng.choice([0.0, 0.2, 0.6]),
        "overlap": rng.choice(["mixed", "star", "match", "asym", "mixed"]),
        "parallel": rng.random() < 0.6,
        "nest": rng.random() < 0.7,
    }
    return k


def gen_doc(rng, k, version=None):
    v = version or rng.choice(["gfa1", "gfa2"])
    return gen_gfa1(rng, k) if v == "gfa1" else gen_gfa2(rng, k)
