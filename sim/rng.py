"""One integer decides everything: counter-free hash mixing + named streams."""
import hashlib
import random


def mix(*parts):
    h = hashlib.sha256(repr(parts).encode()).digest()
    return int.from_bytes(h[:8], "big")


class Streams:
    """Independent named random.Random streams derived from one run seed."""

    def __init__(self, seed):
        self.seed = seed
        self._s = {}

    def get(self, name):
        r = self._s.get(name)
        if r is None:
            r = random.Random(mix(self.seed, name))
            self._s[name] = r
        return r


def digest(obj):
    import json
    return hashlib.sha256(json.dumps(obj, sort_keys=True, default=str).encode()).hexdigest()[:16]
