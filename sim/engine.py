"""Run loop, minimisation, replay, fan-out driver and evidence writer."""
import importlib
import json
import os
import subprocess
import sys
import time
import copy

from .rng import Streams, mix, digest
from . import core
from .core import Violation, HarnessTimeout, BudgetExceeded, Stats

VERIF = os.path.dirname(os.path.dirname(os.path.abspath(__file__)))
WORK = os.path.join(VERIF, ".work")
PY = "/venv/bin/python"
NHASH = {"quick": 8, "thorough": 32}
RUN_TIMEOUT = 60.0          # wall seconds per run before HARNESS-TIMEOUT
SHRINK_BUDGET = 1500


def load_prop(pid):
    return importlib.import_module("sim.props.%s" % pid.lower())


def run_seed(seed, pid, i):
    return mix(seed, pid, i)


def hashseed_of(rseed, tier):
    return rseed % NHASH[tier]


# ------------------------------------------------------------------ one run
def execute(prop, scn, st):
    """Execute a scenario. Returns None or a Violation."""
    try:
        prop.run(copy.deepcopy(scn), st)
    except Violation as v:
        return v
    return None


def same_fp(prop, a, b):
    return a.fingerprint(prop.PROP) == b.fingerprint(prop.PROP)


def ddmin_ops(prop, scn, viol, budget):
    """Delta-debug scn['ops'] keeping the same fingerprint."""
    ops = list(scn["ops"])
    n = 2
    used = 0
    best_v = viol

    def test(cand_ops):
        nonlocal used
        used += 1
        c = dict(scn)
        c["ops"] = cand_ops
        try:
            v = execute(prop, c, Stats())
        except (HarnessTimeout, BudgetExceeded):
            raise
        except Exception:
            return None
        if v is not None and same_fp(prop, v, viol):
            return v
        return None

    while len(ops) >= 2 and used < budget:
        chunk = max(1, len(ops) // n)
        reduced = False
        for i in range(0, len(ops), chunk):
            cand = ops[:i] + ops[i + chunk:]
            if not cand:
                continue
            v = test(cand)
            if v is not None:
                ops = cand
                best_v = v
                n = max(n - 1, 2)
                reduced = True
                break
            if used >= budget:
                break
        if not reduced:
            if chunk == 1:
                break
            n = min(len(ops), n * 2)
    out = dict(scn)
    out["ops"] = ops
    # per-op simplification offered by the property
    simp = getattr(prop, "simplify", None)
    if simp is not None:
        progress = True
        while progress and used < budget:
            progress = False
            try:
                cands = list(simp(out))
            except Exception:
                cands = []
            for cand in cands:
                used += 1
                try:
                    v = execute(prop, cand, Stats())
                except (HarnessTimeout, BudgetExceeded):
                    raise
                except Exception:
                    v = None
                if v is not None and same_fp(prop, v, viol):
                    out = cand
                    best_v = v
                    progress = True
                    break
                if used >= budget:
                    break
    return out, best_v, used


def load_known(pid):
    path = os.path.join(VERIF, "known_findings.jsonl")
    out = []
    if os.path.exists(path):
        for ln in open(path):
            ln = ln.strip()
            if not ln.startswith("{"):
                continue      # comments and 'fixed:' records suppress nothing
            d = json.loads(ln)
            if d.get("status", "open") == "open" and d.get("property") == pid:
                out.append(d)
    return out


def match_known(known, fp):
    for k in known:
        m = k.get("match", {})
        if all(fp.get(a) == b for a, b in m.items()):
            return k
    return None


def gfapy_rev():
    try:
        return subprocess.check_output(["git", "-C", core.REPO, "rev-parse", "--short", "HEAD"],
                                       stderr=subprocess.DEVNULL).decode().strip()
    except Exception:
        return "?"


# ------------------------------------------------------------------ worker
def worker_main(argv):
    pid, tier, seed, idxfile, outfile = argv[0], argv[1], int(argv[2]), argv[3], argv[4]
    hashseed = os.environ.get("PYTHONHASHSEED", "random")
    prop = load_prop(pid)
    idxs = json.load(open(idxfile))
    known = load_known(pid)
    st = Stats()
    res = {"runs": 0, "violations": [], "known_hits": {}, "samples": [], "harness_errors": [],
           "timeouts": 0, "log_digests": {}}
    maxviol = int(os.environ.get("VERIF_MAXVIOL", "3"))
    noshrink = bool(os.environ.get("VERIF_NOSHRINK"))
    seen_fp = set()
    t0 = time.time()
    # thorough tier only: a worker stops *starting* runs when its share of the wall budget is used up (the runs
    # it did are complete and each is a pure function of its index; the runs not started are reported as such)
    budget = float(os.environ.get("VERIF_WORKER_BUDGET", "0") or 0)
    res["not_started"] = 0
    for n_done, i in enumerate(idxs):
        if budget and time.time() - t0 > budget:
            res["not_started"] = len(idxs) - n_done
            break
        rs = run_seed(seed, pid, i)
        streams = Streams(rs)
        try:
            scn = prop.gen(streams, tier, i)
        except Exception as e:
            res["harness_errors"].append({"run": i, "where": "gen", "exc": core.fmt_exc(e)})
            continue
        scn["seed"] = rs
        scn["run"] = i
        core.watchdog(RUN_TIMEOUT)
        st_run = Stats()
        try:
            v = execute(prop, scn, st_run)
        except HarnessTimeout:
            core.watchdog_off()
            res["timeouts"] += 1
            res["harness_errors"].append({"run": i, "where": "run", "exc": "HARNESS-TIMEOUT", "scn": scn})
            continue
        except BudgetExceeded:
            core.watchdog_off()
            res["harness_errors"].append({"run": i, "where": "run", "exc": "BudgetExceeded escaped"})
            continue
        except Exception as e:
            core.watchdog_off()
            res["harness_errors"].append({"run": i, "where": "run", "exc": core.fmt_exc(e), "scn": scn})
            continue
        core.watchdog_off()
        res["runs"] += 1
        # merge stats
        for k, n in st_run.c.items():
            st.c[k] = st.c.get(k, 0) + n
        st.states |= st_run.states
        st.scheds |= st_run.scheds
        st.steps += st_run.steps
        if os.environ.get("VERIF_LOGDIGEST"):
            res["log_digests"][str(i)] = digest([scn, sorted(st_run.c.items()), sorted(st_run.states),
                                                 None if v is None else v.fingerprint(pid)])
        if len(res["samples"]) < 3 and v is None:
            res["samples"].append(scn)
        if v is None:
            continue
        fp = v.fingerprint(pid)
        kf = match_known(known, fp)
        if kf is not None:
            res["known_hits"][kf["id"]] = res["known_hits"].get(kf["id"], 0) + 1
            continue
        fpk = json.dumps(fp, sort_keys=True)
        if fpk in seen_fp or len(res["violations"]) >= maxviol:
            st.count("violations_not_minimised")
            continue
        seen_fp.add(fpk)
        core.watchdog(600)
        try:
            if noshrink:
                small, v2, used = scn, v, 0
            else:
                small, v2, used = ddmin_ops(prop, scn, v, SHRINK_BUDGET)
        except (HarnessTimeout, BudgetExceeded):
            small, v2, used = scn, v, -1
        core.watchdog_off()
        fp2 = v2.fingerprint(pid)
        kf = match_known(known, fp2)
        if kf is not None:
            res["known_hits"][kf["id"]] = res["known_hits"].get(kf["id"], 0) + 1
            continue
        res["violations"].append({
            "property": pid, "seed": seed, "run": i, "run_seed": rs, "hashseed": hashseed,
            "tier": tier, "fingerprint": fp2, "detail": v2.detail, "clause": v2.clause,
            "scn": small, "orig_ops": len(scn.get("ops", [])), "shrink_execs": used,
            "gfapy_rev": gfapy_rev()})
    res["stats"] = st.c
    res["steps"] = st.steps
    res["states"] = sorted(st.states)
    res["scheds"] = sorted(st.scheds)
    res["wall"] = time.time() - t0
    json.dump(res, open(outfile, "w"))


# ------------------------------------------------------------------ replay
def replay_main(path):
    """Re-exec under the recorded PYTHONHASHSEED and run the recorded ops."""
    rec = json.load(open(path))
    hs = str(rec.get("hashseed", "0"))
    if os.environ.get("PYTHONHASHSEED") != hs or os.environ.get("VERIF_REPLAY_CHILD") != "1":
        env = dict(os.environ, PYTHONHASHSEED=hs, VERIF_REPLAY_CHILD="1")
        r = subprocess.call([PY, os.path.join(VERIF, "sim", "main.py"), "--replay", path], env=env)
        sys.exit(r)
    prop = load_prop(rec["property"])
    core.watchdog(300)
    v = execute(prop, rec["scn"], Stats())
    core.watchdog_off()
    if v is None:
        print("replay: no violation reproduced (the tree differs from %s?)" % rec.get("gfapy_rev"))
        sys.exit(0)
    fp = v.fingerprint(rec["property"])
    same = fp == rec.get("fingerprint")
    print("replay: %s reproduced: %s" % ("same violation" if same else "a different violation", v.detail))
    print("fingerprint: %s" % json.dumps(fp, sort_keys=True))
    print("VIOLATION property=%s replay=%s" % (rec["property"], path))
    sys.exit(1)


# ------------------------------------------------------------------ driver
def ncpu():
    try:
        return max(1, min(16, len(os.sched_getaffinity(0))))
    except Exception:
        return max(1, min(16, os.cpu_count() or 1))


def check_main(pid, tier, seed, nruns=None, jobs=None, quiet=False):
    prop = load_prop(pid)
    t0 = time.time()
    if nruns is None:
        nruns = prop.RUNS[tier]
    jobs = jobs or int(os.environ.get("VERIF_JOBS", "0")) or ncpu()
    os.makedirs(WORK, exist_ok=True)
    tag = "%s-%s-%d-%d" % (pid, tier, seed, os.getpid())
    # group runs by hash seed, then split each group over workers
    groups = {}
    for i in range(nruns):
        groups.setdefault(hashseed_of(run_seed(seed, pid, i), tier), []).append(i)
    hs_sorted = sorted(groups)
    per = max(1, jobs // max(1, len(hs_sorted)))
    tasks = []
    for h in hs_sorted:
        idxs = groups[h]
        for p in range(per):
            part = idxs[p::per]
            if part:
                tasks.append((h, part))
    procs = []
    results = []
    pending = list(enumerate(tasks))
    running = []
    harness_fail = []
    wall_limit = float(os.environ.get("VERIF_WALL", prop.WALL[tier]))
    deadline = time.time() + wall_limit
    waves = max(1, -(-len(tasks) // max(1, jobs)))
    worker_budget = (0.85 * wall_limit / waves) if tier == "thorough" else 0
    while pending or running:
        while pending and len(running) < jobs:
            tno, (h, part) = pending.pop(0)
            idxf = os.path.join(WORK, "%s-%d.idx.json" % (tag, tno))
            outf = os.path.join(WORK, "%s-%d.out.json" % (tag, tno))
            json.dump(part, open(idxf, "w"))
            env = dict(os.environ, PYTHONHASHSEED=str(h), GFAPY_VERIF_SIM="1")
            env["VERIF_WORKER_BUDGET"] = "%.1f" % worker_budget
            env.pop("VERIF_REPLAY_CHILD", None)
            p = subprocess.Popen([PY, os.path.join(VERIF, "sim", "main.py"), "--worker",
                                  pid, tier, str(seed), idxf, outf],
                                 env=env, cwd=VERIF, stdout=subprocess.PIPE, stderr=subprocess.STDOUT)
            running.append((p, tno, h, idxf, outf))
        time.sleep(0.05)
        still = []
        for ent in running:
            p, tno, h, idxf, outf = ent
            rc = p.poll()
            if rc is None:
                if time.time() > deadline:
                    p.kill()
                    harness_fail.append("worker %d (hashseed %s) killed at wall limit" % (tno, h))
                    continue
                still.append(ent)
                continue
            out = p.stdout.read().decode(errors="replace")
            if rc != 0 or not os.path.exists(outf):
                harness_fail.append("worker %d (hashseed %s) exit %s: %s" % (tno, h, rc, out[-2000:]))
            else:
                r = json.load(open(outf))
                r["hashseed"] = h
                results.append(r)
            for f in (idxf, outf):
                try:
                    os.remove(f)
                except OSError:
                    pass
        running = still
    # ---- aggregate
    agg = {"runs": 0, "steps": 0, "stats": {}, "states": set(), "scheds": set(), "violations": [],
           "known_hits": {}, "samples": [], "harness_errors": [], "timeouts": 0, "log_digests": {}}
    for r in results:
        agg["runs"] += r["runs"]
        agg["steps"] += r["steps"]
        for k, n in r["stats"].items():
            agg["stats"][k] = agg["stats"].get(k, 0) + n
        agg["states"] |= set(r["states"])
        agg["scheds"] |= set(r["scheds"])
        agg["violations"] += r["violations"]
        for k, n in r["known_hits"].items():
            agg["known_hits"][k] = agg["known_hits"].get(k, 0) + n
        agg["samples"] += r["samples"]
        agg["harness_errors"] += r["harness_errors"]
        agg["timeouts"] += r["timeouts"]
        agg["not_started"] = agg.get("not_started", 0) + r.get("not_started", 0)
        agg["log_digests"].update(r.get("log_digests", {}))
    agg["samples"].sort(key=lambda s: s.get("run", 0))
    wall = time.time() - t0
    # ---- violations -> replay files
    os.makedirs(os.path.join(VERIF, "replays"), exist_ok=True)
    vio_lines = []
    seenfp = set()
    for v in sorted(agg["violations"], key=lambda v: v["run"]):
        fpk = json.dumps(v["fingerprint"], sort_keys=True)
        if fpk in seenfp:
            continue
        seenfp.add(fpk)
        path = os.path.join(VERIF, "replays", "%s-%s-run%d.json" % (pid, digest(v["fingerprint"])[:8], v["run"]))
        json.dump(v, open(path, "w"), indent=1)
        vio_lines.append((path, v))
    known_all = {k["id"]: k for k in load_known(pid)}
    if os.environ.get("VERIF_LOGDIGEST"):
        json.dump(agg["log_digests"], open(os.environ["VERIF_LOGDIGEST"], "w"), sort_keys=True)
    if os.environ.get("VERIF_NO_EVIDENCE"):
        return 1 if vio_lines else (2 if (agg["harness_errors"] or harness_fail or agg["runs"] == 0) else 0)
    # ---- evidence
    ev = build_evidence(prop, pid, tier, seed, nruns, agg, wall, len(vio_lines), hs_sorted, jobs)
    # (tools that run the checks against a deliberately broken /repo redirect the evidence to a scratch directory)
    evdir = os.environ.get("VERIF_EVIDENCE_DIR") or os.path.join(VERIF, "evidence")
    os.makedirs(evdir, exist_ok=True)
    json.dump(ev, open(os.path.join(evdir, "%s.json" % pid), "w"), indent=1, sort_keys=True)
    # ---- report
    if not quiet:
        print("%s %s seed=%d runs=%d steps=%d distinct_states=%d wall=%.1fs (%.0f runs/h)" % (
            pid, tier, seed, agg["runs"], agg["steps"], len(agg["states"]), wall,
            agg["runs"] / max(wall, 1e-9) * 3600))
        if agg.get("not_started"):
            print("  (wall budget of the thorough tier reached: %d of %d planned runs were not started)" %
                  (agg["not_started"], nruns))
    for kid, n in sorted(agg["known_hits"].items()):
        print("KNOWN-FINDING: property=%s %s [%s; hit by %d run(s)]" % (pid, known_all[kid]["what"], kid, n))
    for path, v in vio_lines:
        print("VIOLATION property=%s replay=%s" % (pid, path))
        print("  clause=%s: %s" % (v["clause"], v["detail"][:600]))
    if agg["harness_errors"] or harness_fail:
        for h in harness_fail[:5]:
            print("HARNESS-ERROR: %s" % h)
        for h in agg["harness_errors"][:5]:
            print("HARNESS-ERROR: run %s in %s: %s" % (h.get("run"), h.get("where"), h.get("exc", "")[-1500:]))
            if h.get("scn"):
                os.makedirs(WORK, exist_ok=True)
                json.dump(h["scn"], open(os.path.join(WORK, "harness-error-%s-run%s.json" % (pid, h.get("run"))), "w"))
    if vio_lines:
        return 1
    if agg["harness_errors"] or harness_fail or agg["runs"] == 0:
        return 2
    return 0


def build_evidence(prop, pid, tier, seed, nruns, agg, wall, nviol, hashseeds, jobs):
    stats = agg["stats"]
    faults = {k[len("fault."):]: v for k, v in stats.items() if k.startswith("fault.")}
    probes = {k[len("probe."):]: v for k, v in stats.items() if k.startswith("probe.")}
    oracle = {k[len("oracle."):]: v for k, v in stats.items() if k.startswith("oracle.")}
    opk = {k[len("op."):]: v for k, v in stats.items() if k.startswith("op.")}
    other = {k: v for k, v in stats.items() if "." not in k}
    expected = getattr(prop, "PROBES", [])
    stuck = [p for p in expected if probes.get(p, 0) == 0]
    cov = {
        "evaluations": agg["runs"],
        "distinct_nontrivial": len(agg["states"]),
        "rule": getattr(prop, "RULE", "seeded runs; distinct = distinct state digests after a mutating step"),
        "samples": agg["samples"][:3],
        "exhaustive": False,
        "runs_requested": nruns,
        "runs_not_started_wall_budget": agg.get("not_started", 0),
        "simulated_steps": agg["steps"],
        "runs_per_hour": round(agg["runs"] / max(wall, 1e-9) * 3600),
        "seeds": {"verif_seed": seed, "first_run": 0, "last_run": nruns - 1},
        "hashseeds": list(hashseeds),
        "workers": jobs,
        "faults_fired": faults,
        "probes": probes,
        "probes_stuck_at_zero": stuck,
        "oracle_evaluations": oracle,
        "op_kinds": opk,
        "counters": other,
        "distinct_schedules": len(agg["scheds"]),
        "known_findings_hit": agg["known_hits"],
        "harness_errors": len(agg["harness_errors"]),
        "harness_timeouts": agg["timeouts"],
        "components": {"real": ["all of gfapy imported from /repo working tree"],
                       "stub": getattr(prop, "STUBS", ["record transport (the harness is the only caller)"])},
        "sim_clock_seconds": stats.get("clock.advanced", 0),
    }
    return {
        "property_id": pid, "tier": tier, "seed": seed, "level": "exploration",
        "coverage": cov, "wall_s": round(wall, 2), "violations": nviol,
        "assumptions": getattr(prop, "ASSUMPTIONS", []),
    }
