"""Independent text-level utilities for GFA records.

Shares no code with gfapy. Used by the reference model and by the passive
observer to canonicalise what gfapy writes (links modulo complement, one tag per
H line, canonical numbers / JSON, tags as a sorted set).
"""
import json
import re

TAG_RE = re.compile(r"^([A-Za-z][A-Za-z0-9]):([AifZJHB]):(.+)$", re.S)
CIGAR_OP_RE = re.compile(r"([0-9]+)([MIDNSHPX=])")

NPOS = {
    "gfa1": {"H": 0, "S": 2, "L": 5, "C": 6, "P": 3},
    "gfa2": {"H": 0, "S": 3, "E": 8, "F": 7, "G": 5, "O": 2, "U": 2},
}


def inv(o):
    return "-" if o == "+" else "+"


# ---------------------------------------------------------------- CIGAR algebra
def cigar_parse(s):
    """'*' -> None ; '3M1D' -> [(3,'M'),(1,'D')]; trace '1,2' -> ('trace', s)"""
    if s == "*":
        return None
    ops = [(int(a), b) for a, b in CIGAR_OP_RE.findall(s)]
    return ops


def cigar_str(ops):
    if ops is None:
        return "*"
    return "".join("%d%s" % (n, c) for n, c in ops)


_COMP = {"I": "D", "D": "I", "S": "D", "N": "I"}


def cigar_complement(s):
    """Complement of a CIGAR string (reverse, swap I<->D); '*' and traces unchanged."""
    if s == "*" or "," in s or not CIGAR_OP_RE.search(s):
        return s
    ops = cigar_parse(s)
    return cigar_str([(n, _COMP.get(c, c)) for n, c in reversed(ops)])


def cigar_swap(s):
    """The same alignment with the roles of reference and query exchanged, read in the same direction
    (I<->D, order kept); '*' and traces unchanged."""
    if s == "*" or "," in s or not CIGAR_OP_RE.search(s):
        return s
    return cigar_str([(n, _COMP.get(c, c)) for n, c in cigar_parse(s)])


def cigar_reflen(s):
    ops = cigar_parse(s)
    if ops is None:
        return None
    return sum(n for n, c in ops if c in "M=XDN")


def cigar_qlen(s):
    ops = cigar_parse(s)
    if ops is None:
        return None
    return sum(n for n, c in ops if c in "M=XIS")


# ---------------------------------------------------------------- tags
def canon_tag_value(t, v):
    """Canonical spelling of a tag value: the documented normalisation of C01."""
    try:
        if t == "i":
            return str(int(v)) if re.match(r"^[-+]?[0-9]+$", v) else v
        if t == "f":
            if re.match(r"^[-+]?[0-9]*\.?[0-9]+([eE][-+]?[0-9]+)?$", v):
                return repr(float(v))
            return v
        if t == "J":
            return json.dumps(json.loads(v), sort_keys=False)
        if t == "B":
            # numeric array: canonical element spelling, subtype kept
            parts = v.split(",")
            st = parts[0]
            if st == "f":
                return ",".join([st] + [repr(float(x)) for x in parts[1:]])
            return ",".join([st] + [str(int(x)) for x in parts[1:]])
    except Exception:
        return v
    return v


def split_tags(fields):
    """Split trailing tag fields off a list of fields (custom-record heuristic)."""
    n = len(fields)
    while n > 0 and TAG_RE.match(fields[n - 1]):
        n -= 1
    return fields[:n], fields[n:]


class PLine:
    """A tokenised line: rt, positional fields (strings), tags [(n,t,v)]."""
    __slots__ = ("rt", "pos", "tags", "version", "raw")

    def __init__(self, rt, pos, tags, version, raw=None):
        self.rt = rt
        self.pos = pos
        self.tags = tags
        self.version = version
        self.raw = raw

    def tag(self, name):
        for n, t, v in self.tags:
            if n == name:
                return (t, v)
        return None

    def render(self):
        if self.rt == "#":
            return self.raw
        return "\t".join([self.rt] + list(self.pos) +
                         ["%s:%s:%s" % t for t in self.tags])

    def __repr__(self):
        return "PLine(%r)" % self.render()


def tokenize(line, version):
    """Trivial tokenizer for *well-formed* lines (what generators emit and what
    gfapy writes). version in {'gfa1','gfa2'}; S lines sniffed when None."""
    if line.startswith("#"):
        return PLine("#", [], [], version, raw=line)
    f = line.split("\t")
    rt = f[0]
    v = version
    if v is None:
        if rt in ("L", "C", "P"):
            v = "gfa1"
        elif rt in ("E", "F", "G", "O", "U"):
            v = "gfa2"
        elif rt == "S":
            pos, _ = split_tags(f[1:])
            v = "gfa1" if len(pos) == 2 else "gfa2"
        else:
            v = "gfa2"
    npos = NPOS.get(v, {}).get(rt)
    if npos is None:
        # custom record: heuristic split from the end
        pos, tagf = split_tags(f[1:])
    else:
        pos, tagf = f[1:1 + npos], f[1 + npos:]
    tags = []
    for tf in tagf:
        m = TAG_RE.match(tf)
        if m:
            tags.append((m.group(1), m.group(2), m.group(3)))
        else:
            tags.append(("??", "?", tf))
    return PLine(rt, pos, tags, v)


def link_forms(pos):
    """The two complement forms of an L line's positional fields."""
    a = tuple(pos)
    b = (pos[2], inv(pos[3]), pos[0], inv(pos[1]), cigar_complement(pos[4]))
    return a, b


def canon_pos(pl):
    """Canonical positional fields (links modulo complement; U items sorted?? no)."""
    if pl.rt == "L" and pl.version == "gfa1" and len(pl.pos) == 5:
        a, b = link_forms(pl.pos)
        return min(a, b)
    return tuple(pl.pos)


def canon_lines(line, version, tags_sorted=True, drop_tags=()):
    """Canonical form(s) of one written line -> list of strings.
    H lines are split one tag per line."""
    pl = tokenize(line, version)
    if pl.rt == "#":
        return [pl.raw]
    tags = [(n, t, canon_tag_value(t, v)) for n, t, v in pl.tags if n not in drop_tags]
    if pl.rt == "H":
        return ["H\t%s:%s:%s" % t for t in tags]
    if tags_sorted:
        tags = sorted(tags)
    return ["\t".join([pl.rt] + list(canon_pos(pl)) + ["%s:%s:%s" % t for t in tags])]


def canon_doc(lines, version, **kw):
    """Sorted multiset (list) of canonical lines of a document."""
    out = []
    for ln in lines:
        if ln == "":
            continue
        out.extend(canon_lines(ln, version, **kw))
    return sorted(out)


def rc(seq):
    if seq == "*":
        return "*"
    comp = {"a": "t", "c": "g", "g": "c", "t": "a", "A": "T", "C": "G", "G": "C", "T": "A",
            "n": "n", "N": "N"}
    return "".join(comp.get(c, c) for c in reversed(seq))
