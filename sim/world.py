"""The world a run executes in: one or more Gfa replicas, the simulated disk,
the simulated clock, and the executor of the JSON operation alphabet."""
import io
import gfapy
from . import core, gtext
from . import observe as ob


# ------------------------------------------------------------------ SimDisk
class SimDisk:
    """In-memory disk behind gfapy.gfa.open. Volatile writes become durable on sync()."""

    def __init__(self, st=None):
        self.durable = {}
        self.volatile = {}
        self.st = st
        self.fail_open = {}      # path -> exception to raise once
        self.opens = 0

    def open(self, path, mode="r", *a, **kw):
        self.opens += 1
        if path in self.fail_open:
            e = self.fail_open.pop(path)
            if self.st:
                self.st.count("fault.io_error")
            raise e
        disk = self

        if "w" in mode:
            class W(io.StringIO):
                def close(s):
                    if not s.closed:
                        disk.volatile[path] = s.getvalue()
                    io.StringIO.close(s)

                def __exit__(s, *x):
                    s.close()
                    return False
            return W()
        data = self.volatile.get(path, self.durable.get(path))
        if data is None:
            raise FileNotFoundError(path)
        if isinstance(data, bytes):
            # stored bytes: decoded as the builtin text mode does (UTF-8, errors while reading)
            return io.TextIOWrapper(io.BytesIO(data), encoding="utf-8", newline=None)
        # universal newlines like the builtin text mode
        return io.StringIO(data, newline=None)

    def write_raw(self, path, text):
        self.volatile[path] = text

    def sync(self):
        self.durable.update(self.volatile)
        self.volatile.clear()

    def crash(self):
        """dirty restart: everything not durable is lost"""
        n = len(self.volatile)
        self.volatile.clear()
        return n

    def read(self, path):
        return self.volatile.get(path, self.durable.get(path))


class SimClock:
    """Replaces the 'time' module seen by gfapy.logger."""

    def __init__(self):
        self.now = 1.0e9
        self.reads = 0

    def time(self):
        self.reads += 1
        return self.now

    def strftime(self, *a):
        return "SIM"

    def __getattr__(self, name):
        import time as _t
        return getattr(_t, name)


def install_seams(disk, clock=None):
    import gfapy.gfa as gmod
    gmod.open = disk.open
    if clock is not None:
        import gfapy.logger as lmod
        lmod.time = clock


def remove_seams():
    import gfapy.gfa as gmod
    if "open" in gmod.__dict__:
        del gmod.__dict__["open"]
    import gfapy.logger as lmod
    import time as _t
    lmod.time = _t


# ------------------------------------------------------------------ helpers
def find_by_text(gfa, text, version=None):
    """Find a listed line whose canonical text equals that of 'text'."""
    v = gfa.version if gfa.version in ("gfa1", "gfa2") else version
    try:
        want = gtext.canon_lines(text, v)
    except Exception:
        want = [text]
    for l in ob.listed_lines(gfa):
        if l.virtual:
            continue
        try:
            got = gtext.canon_lines(ob.line_text(l), v)
        except Exception:
            got = [ob.line_text(l)]
        if got == want:
            return l
    return None


def to_pyvalue(v):
    """JSON op value -> python value handed to gfapy (tagged dicts for special types)."""
    if isinstance(v, dict) and "__t" in v:
        t = v["__t"]
        if t == "bytearray":
            return gfapy.ByteArray(v["v"])
        if t == "numarray":
            return gfapy.NumericArray(v["v"])
        if t == "float":
            return float(v["v"])
        if t == "tuple":
            return tuple(v["v"])
    return v


class World:
    """Executes ops against a primary Gfa (self.gfa). Subclasses / callers add oracles."""

    def __init__(self, st):
        self.st = st
        self.gfa = None
        self.removed = []
        self.disk = SimDisk(st)
        self.clock = SimClock()
        self.cfg = {}
        self.last_line_obj = None

    # -- construction
    def op_new(self, op):
        return core.call(gfapy.Gfa, vlevel=op.get("vlevel", 1), version=op.get("version"),
                         dialect=op.get("dialect", "standard"))

    def construct(self, entry, lines, vlevel=1, version=None, dialect="standard", observer=None):
        """Build a Gfa through one of the entry points. Returns Outcome(value=gfa)."""
        kw = dict(vlevel=vlevel, version=version, dialect=dialect)
        if entry == "str":
            return core.call(gfapy.Gfa, "\n".join(lines), **kw)
        if entry == "str_nl":
            return core.call(gfapy.Gfa, "\n".join(lines) + "\n", **kw)
        if entry == "list":
            return core.call(gfapy.Gfa, list(lines), **kw)
        if entry in ("file_lf", "file_crlf", "file_nonl", "file_progress"):
            term = "\r\n" if entry == "file_crlf" else "\n"
            text = term.join(lines) + ("" if entry == "file_nonl" else term)
            self.disk.write_raw("/sim/in.gfa", text)
            self.disk.sync()
            install_seams(self.disk, self.clock)
            try:
                if entry == "file_progress":
                    def f():
                        g = gfapy.Gfa(**kw)
                        g.enable_progress_logging(part=0.3, channel=io.StringIO())
                        g.read_file("/sim/in.gfa")
                        return g
                    return core.call(f)
                return core.call(gfapy.Gfa.from_file, "/sim/in.gfa", **kw)
            finally:
                remove_seams()
        if entry == "incremental":
            def f():
                g = gfapy.Gfa(**kw)
                for n, ln in enumerate(lines):
                    g.add_line(ln)
                    if observer is not None:
                        observer(g, n)       # a reader interleaved with the delivery
                g.process_line_queue()
                if vlevel >= 1:
                    g.validate()
                return g
            return core.call(f)
        raise AssertionError(entry)

    # -- op dispatch
    def apply(self, op):
        k = op["op"]
        self.st.count("op." + k)
        self.st.step()
        return getattr(self, "do_" + k)(op)

    def do_new(self, op):
        out = self.op_new(op)
        if out.ok:
            self.gfa = out.value
        return out

    def do_construct(self, op):
        out = self.construct(op.get("entry", "str"), op["lines"], op.get("vlevel", 1),
                             op.get("version"), op.get("dialect", "standard"))
        if out.ok:
            self.gfa = out.value
        return out

    def do_add(self, op):
        self.last_line_obj = None
        if op.get("as") == "obj":
            o = core.call(gfapy.Line, op["line"], vlevel=self.gfa.vlevel,
                          version=op.get("lversion"))
            if not o.ok:
                return o
            self.last_line_obj = o.value
            # how the caller's line writes before the call (an invalid line made at level 0 carries a marker)
            t = core.call(str, o.value)
            self.last_line_obj_text = t.value if t.ok else None
            return core.call(self.gfa.add_line, o.value)
        return core.call(self.gfa.add_line, op["line"])

    def do_flush(self, op):
        return core.call(self.gfa.process_line_queue)

    def _target(self, op):
        if "id" in op:
            return self.gfa.line(op["id"])
        if "text" in op:
            return find_by_text(self.gfa, op["text"])
        return None

    def do_rm(self, op):
        # (every removal operation leaves a handle: the removed object and what it wrote then, or None)
        n0 = len(self.removed)
        out = self._do_rm(op)
        if not hasattr(self, "rm_handles"):
            self.rm_handles = []
        self.rm_handles.append((self.removed[-1], ob.line_text(self.removed[-1]))
                               if (out.ok and len(self.removed) > n0) else None)
        return out

    def do_readd_obj(self, op):
        """the very object an earlier removal took out of the Gfa is added again"""
        hs = getattr(self, "rm_handles", [])
        ent = hs[op["rmidx"]] if op["rmidx"] < len(hs) else None
        v = self.gfa.version
        # (in a shrunk history the index may point at another removal: the text recorded when the object was
        # removed says whether it is the line the operation means)
        try:
            same = ent is not None and gtext.canon_lines(ent[1], v) == gtext.canon_lines(op["text"], v)
        except Exception:
            same = False
        if not same:
            self.st.count("op.skipped")
            return core.Outcome(True, "skipped")
        hs[op["rmidx"]] = None      # (the object lives on in the Gfa: it is no removed line any more)
        out = core.call(self.gfa.add_line, ent[0])
        if out.ok:
            self.removed = [x for x in self.removed if x is not ent[0]]
        return out

    def do_rm_stale(self, op):
        """rm() is given the object an earlier removal took out of the Gfa (a line carrying its name may be back)"""
        hs = getattr(self, "rm_handles", [])
        ent = hs[op["rmidx"]] if op["rmidx"] < len(hs) else None
        if ent is None or ent[0].is_connected():
            self.st.count("op.skipped")
            return core.Outcome(True, "skipped")
        return core.call(self.gfa.rm, ent[0])

    def _do_rm(self, op):
        how = op.get("how", "rm")
        if how == "rm" and "id" in op:
            l = self.gfa.line(op["id"])
            out = core.call(self.gfa.rm, op["id"])
        else:
            l = self._target(op)
            if l is None:
                self.st.count("op.skipped")
                return core.Outcome(True, "skipped")
            if how == "disconnect":
                out = core.call(l.disconnect)
            else:
                out = core.call(self.gfa.rm, l)
        if out.ok and l is not None:
            self.removed.append(l)
        return out

    def do_rename(self, op):
        l = self._target(op)
        if l is None:
            self.st.count("op.skipped")
            return core.Outcome(True, "skipped")

        def f():
            l.name = op["new"]
        return core.call(f)

    def do_set_tag(self, op):
        l = self._target(op)
        if l is None:
            self.st.count("op.skipped")
            return core.Outcome(True, "skipped")

        if op.get("via") == "attr":
            # line.xx = value (the accessor of an existing or earlier tag)
            return core.call(setattr, l, op["tag"], to_pyvalue(op["value"]))
        return core.call(l.set, op["tag"], to_pyvalue(op["value"]))

    def do_set_datatype(self, op):
        l = self._target(op)
        if l is None:
            self.st.count("op.skipped")
            return core.Outcome(True, "skipped")
        return core.call(l.set_datatype, op["tag"], op["dtype"])

    def do_del_tag(self, op):
        l = self._target(op)
        if l is None:
            self.st.count("op.skipped")
            return core.Outcome(True, "skipped")
        return core.call(l.delete, op["tag"])

    def do_validate(self, op):
        return core.call(self.gfa.validate)


def _w_set_field(self, op):
    l = self._target(op)
    if l is None:
        self.st.count("op.skipped")
        return core.Outcome(True, "skipped")
    if op.get("inplace") == "line":
        # the line part of an oriented reference replaced in place: line.<field>[k].line = value
        def _edit():
            # ('links' of a GFA1 path is not a field: the collection of the links the path goes through)
            v = l.links if (op["field"] == "links" and l.record_type == "P") else l.get(op["field"])
            if isinstance(v, list):
                if not v:
                    raise gfapy.NotFoundError("empty list")
                v = v[op.get("idx", 0) % len(v)]
            if not isinstance(v, gfapy.OrientedLine):
                raise gfapy.TypeError("not an oriented reference")
            if op["field"] == "links":
                # another link of the Gfa in the place of the one the path goes through
                others = [x for x in self.gfa.dovetails if x is not v.line]
                if not others:
                    raise gfapy.NotFoundError("no other link")
                v.line = others[op.get("idx", 0) % len(others)]
                return
            v.line = op["value"]
        return core.call(_edit)
    return core.call(l.set, op["field"], op["value"])


def _w_readd_connected(self, op):
    l = self._target(op)
    if l is None:
        self.st.count("op.skipped")
        return core.Outcome(True, "skipped")
    return core.call(self.gfa.add_line, l)


def _w_grp_conflict(self, op):
    """second line of a multi-line group whose tag contradicts the first one's"""
    l = self.gfa.line(op["id"])
    if l is None or l.record_type != op["rt"]:
        self.st.count("op.skipped")
        return core.Outcome(True, "skipped")
    o = core.call(l.set, "zc", 1)
    if not o.ok:
        return core.Outcome(True, "skipped")
    return core.call(self.gfa.add_line, "%s\t%s\t%s\tzc:i:2" % (op["rt"], op["id"], op["item"]))


def _w_header_add(self, op):
    """header.add(tag, value[, datatype]) -- the multi-value aware setter of the header line"""
    h = self.gfa.header
    if op.get("dtype"):
        return core.call(h.add, op["tag"], op["value"], op["dtype"])
    return core.call(h.add, op["tag"], op["value"])


def _w_hold(self, op):
    """the caller keeps a handle to a line (a placeholder, or the line object it added last)"""
    if op.get("what") == "last_obj":
        self.held = self.last_line_obj
    else:
        l = core.call(self.gfa.line, op["id"])
        self.held = l.value if l.ok else None
        if self.held is None:
            s = core.call(self.gfa.segment, op["id"])
            self.held = s.value if s.ok else None
    return core.Outcome(True, "held" if self.held is not None else "skipped")


def _w_held_call(self, op):
    """a call through a handle kept earlier: the line may have been replaced in the meantime"""
    h = getattr(self, "held", None)
    if h is None:
        self.st.count("op.skipped")
        return core.Outcome(True, "skipped")
    how = op["how"]
    if how == "rm":
        return core.call(self.gfa.rm, h)
    if how == "disconnect":
        return core.call(h.disconnect)
    if how == "rename_add":
        # the replaced object is the caller's own line again: under another name it is a new line of the Gfa
        def ren_add():
            h.name = op.get("new", "zz9")
            self.gfa.add_line(h)
        self.st.count("probe.stale_object_added_again")
        return core.call(ren_add)
    if how == "append_item":
        if getattr(h, "record_type", None) not in ("O", "U"):
            self.st.count("op.skipped")
            return core.Outcome(True, "skipped")
        self.st.count("probe.stale_group_object_edited")
        item = op.get("new", "zz9") + ("+" if h.record_type == "O" else "")
        return core.call(h.append_item if h.record_type == "O" else h.add_item, item)

    def ren():
        h.name = op.get("new", "zz9")
    return core.call(ren)


def _w_grp_edit(self, op):
    """item-editing methods of a (connected) group"""
    l = self.gfa.line(op["id"])
    if l is None or l.record_type not in ("O", "U"):
        self.st.count("op.skipped")
        return core.Outcome(True, "skipped")
    how = op["how"]
    adding = how in ("add", "append", "prepend")
    special = None
    if op.get("raw") == "from_group" and adding:
        # the very object another connected group holds as an item
        others = [x for x in self.gfa.paths if x is not l and x.record_type == "O" and x.items]
        if not others:
            self.st.count("op.skipped")
            return core.Outcome(True, "skipped")
        special = others[0].items[len(op["item"]) % len(others[0].items)]
        if l.record_type == "U":
            special = special.line
        self.st.count("probe.item_object_of_another_group")
    elif op.get("raw") == "foreign_line" and adding:
        # a line that belongs to another Gfa
        g2 = gfapy.Gfa(version="gfa2")
        g2.add_line("S\tzf9\t5\t*")
        special = gfapy.OrientedLine(g2.segment("zf9"), "+") if l.record_type == "O" else g2.segment("zf9")
        self.foreign_gfa = g2
        self.st.count("probe.item_line_of_another_gfa")
    if l.record_type == "U":
        if adding:
            if special is not None:
                return core.call(l.add_item, special)
            return core.call(l.add_item, op["item"].rstrip("+-") if op["item"][-1:] in "+-" and len(op["item"]) > 1 else op["item"])
        return core.call(l.rm_item, op["item"].rstrip("+-") if op["item"][-1:] in "+-" and len(op["item"]) > 1 else op["item"])
    item = op["item"] if op["item"][-1:] in "+-" else op["item"] + "+"
    if special is not None:
        item = special
    elif op.get("raw") == "str":
        item = op["item"]
    elif op.get("raw") == "oline?":
        item = gfapy.OrientedLine(op["item"], "?")
    elif op.get("raw") == "list":
        item = [op["item"], "x"]
    if how in ("add", "append"):
        return core.call(l.append_item, item)
    if how == "prepend":
        return core.call(l.prepend_item, item)
    if how == "rm_first":
        return core.call(l.rm_first_item)
    return core.call(l.rm_last_item)


def _w_rm_other_group(self, op):
    """removal of the ordered group whose item object a grp_edit handed to the group op['id']"""
    l = self.gfa.line(op["id"])
    others = [x for x in self.gfa.paths if x is not l and x.record_type == "O" and x.items]
    if l is None or not others:
        self.st.count("op.skipped")
        return core.Outcome(True, "skipped")
    out = core.call(self.gfa.rm, others[0])
    if out.ok:
        self.removed.append(others[0])
    return out


def _w_standalone_takes_item(self, op):
    """a stand-alone ordered group (a path under construction) is given the item object a connected group holds"""
    others = [x for x in self.gfa.paths if x.record_type == "O" and x.items]
    if not others:
        self.st.count("op.skipped")
        return core.Outcome(True, "skipped")
    src = others[op.get("i", 0) % len(others)]
    item = src.items[op.get("j", 0) % len(src.items)]
    o = core.call(gfapy.Line, "O\tzo9\t%s" % str(src.items[0]), version="gfa2", vlevel=self.gfa.vlevel)
    if not o.ok:
        return core.Outcome(True, "skipped")
    self.st.count("probe.standalone_group_takes_item")
    return core.call(o.value.prepend_item if op.get("how") == "prepend" else o.value.append_item, item)


def _w_reshape_edge(self, op):
    """a GFA2 edge is asked what it is, disconnected, given other references / positions and added again"""
    l = self.gfa.line(op["id"])
    if l is None or l.record_type != "E":
        self.st.count("op.skipped")
        return core.Outcome(True, "skipped")
    # questions first (whatever an implementation remembers of the answers must not outlive the edit)
    for q in (l.is_dovetail, l.is_containment, l.is_internal, lambda: l.from_end, lambda: l.to_end,
              self.gfa.connected_components, lambda: self.gfa.dovetails):
        core.call(q)
    o = core.call(l.disconnect)
    if not o.ok:
        return o
    self.removed.append(l)
    f = op["line"].split("\t")
    for name_, val in zip(("sid1", "sid2", "beg1", "end1", "beg2", "end2"), f[2:8]):
        o = core.call(l.set, name_, val)
        if not o.ok:
            return o
    o = core.call(self.gfa.add_line, l)
    if o.ok:
        self.removed = [x for x in self.removed if x is not l]
    return o


def _w_add_set_of_foreign_lines(self, op):
    """a set built by the caller whose items are line objects of *another* Gfa (same names) is added"""
    names = [x for x in self.gfa.segment_names if isinstance(x, str)][:3]
    if not names:
        self.st.count("op.skipped")
        return core.Outcome(True, "skipped")
    g2 = gfapy.Gfa(version="gfa2")
    for nme in names:
        g2.add_line("S\t%s\t5\t*" % nme)
    self.foreign_gfa = g2
    o = core.call(gfapy.Line, "U\t%s\t%s" % (op["id"], " ".join(names)), version="gfa2", vlevel=self.gfa.vlevel)
    if not o.ok:
        return core.Outcome(True, "skipped")
    u = o.value
    r = core.call(setattr, u, "items", [g2.segment(nme) for nme in names])
    if not r.ok:
        return core.Outcome(True, "skipped")
    self.st.count("probe.set_of_foreign_lines")
    return core.call(self.gfa.add_line, u)


def _w_add_many(self, op):
    """several lines added in one step (one observation); the outcome is that of the first failure"""
    for ln in op["lines"]:
        o = core.call(self.gfa.add_line, ln)
        if not o.ok:
            return o
    return core.Outcome(True, len(op["lines"]))


World.do_add_many = _w_add_many
World.do_rm_other_group = _w_rm_other_group
World.do_add_set_of_foreign_lines = _w_add_set_of_foreign_lines
World.do_reshape_edge = _w_reshape_edge
World.do_standalone_takes_item = _w_standalone_takes_item
World.do_grp_edit = _w_grp_edit
World.do_hold = _w_hold
World.do_held_call = _w_held_call
World.do_header_add = _w_header_add
World.do_set_field = _w_set_field
World.do_readd_connected = _w_readd_connected
World.do_grp_conflict = _w_grp_conflict
