import json, jsonschema, glob, sys
m=json.load(open('/verif/MANIFEST.json')); jsonschema.validate(m, json.load(open('/root/.vp/MANIFEST.schema.json')))
sch=json.load(open('/root/.vp/EVIDENCE.schema.json'))
for f in sorted(glob.glob('/verif/evidence/C*.json')):
    jsonschema.validate(json.load(open(f)), sch)
    print("ok", f)
ids=[json.loads(l)["id"] for l in open('/verif/properties.jsonl')]
claimed=[c["property_id"] for c in m["checks"]]
na=[c["property_id"] for c in m.get("not_applicable",[])]
print("claimed",claimed); print("na",na); print("unaccounted",[i for i in ids if i not in claimed and i not in na])
