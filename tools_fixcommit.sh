#!/bin/sh
# usage: tools_fixcommit.sh "<commit message>"  -- commits /repo only if the suite passes (known flaky test excepted)
cd /repo || exit 2
out=$(PYTHONHASHSEED=0 /venv/bin/python -m pytest -q -p no:cacheprovider 2>&1 | tail -4)
fails=$(echo "$out" | grep -c "^FAILED" )
other=$(echo "$out" | grep "^FAILED" | grep -vc test_stable_sequence_names)
echo "$out" | tail -2
if [ "$other" != "0" ]; then echo "NOT COMMITTED: failing tests"; exit 1; fi
git commit -qam "$1" && git log --format='%h %s' -1 | cat
