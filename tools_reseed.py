#!/venv/bin/python
"""Re-run checks against the seeded changes kept under /verif/seeded/.

usage: tools_reseed.py <id>|all [--checks C02,C05]   (default check: the property the change was written for)
Applies seeded/<id>/patch.diff to /repo, runs ./check <P> --tier quick, undoes it, updates meta.json.
"""
import glob
import json
import os
import subprocess
os.environ["VERIF_EVIDENCE_DIR"] = "/verif/.work/evidence"   # never the committed evidence
import sys
import time

ids = sys.argv[1]
checks = None
if "--checks" in sys.argv:
    checks = sys.argv[sys.argv.index("--checks") + 1].split(",")
dirs = sorted(glob.glob("/verif/seeded/*")) if ids == "all" else ["/verif/seeded/" + ids]


def sh(cmd, cwd=None, timeout=1800):
    p = subprocess.run(cmd, shell=True, cwd=cwd, stdout=subprocess.PIPE, stderr=subprocess.STDOUT, timeout=timeout)
    return p.returncode, p.stdout.decode(errors="replace")


rc, out = sh("git -C /repo status --porcelain")
if out.strip():
    print("/repo is not clean, refusing")
    sys.exit(2)
summary = []
for d in dirs:
    meta = json.load(open(os.path.join(d, "meta.json")))
    sid = meta["id"]
    rc, out = sh("git -C /repo apply %s/patch.diff" % d)
    if rc != 0:
        print(sid, "patch does not apply to the current /repo:", out[:200])
        meta["applies_to_current_repo"] = False
        json.dump(meta, open(os.path.join(d, "meta.json"), "w"), indent=1)
        summary.append((sid, "n/a"))
        continue
    meta["applies_to_current_repo"] = True
    det = meta.get("detected_by", {})
    try:
        for c in (checks or [meta["property"]]):
            t0 = time.time()
            rc, out = sh("./check %s --tier quick" % c, cwd="/verif", timeout=1500)
            vio = [l for l in out.split("\n") if l.startswith("VIOLATION")]
            clause = [l.strip() for l in out.split("\n") if l.strip().startswith("clause=")]
            det[c] = {"exit": rc, "violations": len(vio), "first": (clause[0][:300] if clause else ""),
                      "wall_s": round(time.time() - t0, 1)}
            print("%s  %s: exit %d, %d violation line(s) %s" % (sid, c, rc, len(vio), clause[0][:140] if clause else ""))
            summary.append((sid + "/" + c, rc))
    finally:
        sh("git -C /repo checkout -- .")
        for f in glob.glob("/verif/replays/*.json"):
            os.remove(f)
    meta["detected_by"] = det
    json.dump(meta, open(os.path.join(d, "meta.json"), "w"), indent=1)
rc, out = sh("git -C /repo status --porcelain")
print("repo clean:", not out.strip())
print("caught %d of %d" % (sum(1 for _s, r in summary if r == 1), len(summary)))
